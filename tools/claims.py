NOT_YET = {}
_NOTE = ("Lean kernel + axioms {propext, Classical.choice, Quot.sound}; theorems are about the hand-written model over exact "
         "arithmetic; the model is tied to /repo by the correspondence harness on generated inputs (generator coverage bounds it); "
         "NumPy primitives are modelled by their logical semantics, IEEE rounding is not modelled")
CLAIMED = {
 "C17": ("Lean 4 theorems (induction on shapes / row lists) + differential correspondence of the executable model with pyttb_utils/khatrirao",
         "sub2ind/ind2sub are proved mutually inverse F-order bijections for every shape; tt_dimscheck, the four row-set helpers and khatrirao "
         "are modelled branch by branch and proved against their set-algebra / Kronecker specifications for all inputs; every run rebuilds the "
         "theorems, audits their axioms and compares model and implementation exactly on generated and enumerated inputs including repeated rows, "
         "negative and out-of-range indices and every dims/exclude/M combination for small N", _NOTE, "DESIGN.md 7 (C17)"),
 "C01": ("Lean 4 refinement theorems (conversion models = denotation) + differential correspondence with tensor/sptensor/tenmat/sptenmat/ktensor conversions",
         "to_sptensor/full/to_tenmat/to_tensor/to_sptenmat/to_sptensor/ktensor.full are modelled as the compositions of NumPy primitives the code performs and proved, for every shape, "
         "order, sparsity pattern and every ordered partition of the modes (either side empty), to preserve the denoted array entry by entry, with the F-order placement rule "
         "row = sub2ind(shape[r], i[r]), column = sub2ind(shape[c], i[c]), well-formedness and nonzero count of the sparse results and the Kruskal sum formula for all N >= 1 and ranks; "
         "Tucker and sum-tensor expansion are proved (C01_tucker_full, C01_sum_full, shared with C02). Every run re-checks the theorems and compares implementation, model and the placement rule exactly on generated inputs "
         "incl. every ordered partition for N<=3 (4 in thorough), the fc/bc/t conventions, and operands produced by earlier operations (growth by assignment, C-ordered / strided / integer-typed buffers)", _NOTE, "DESIGN.md 7 (C01)"),
 "C07": ("Lean 4 index-map theorems (gather / inverse permutation / sub2ind) + differential correspondence with permute/reshape/squeeze of tensor, sptensor, ktensor, ttensor",
         "permute, reshape (incl. sparse partial reshape of any mode subset) and squeeze are proved to move every entry to the position given by the index formula, for all shapes and "
         "all permutations, for dense, sparse, Kruskal and Tucker holders, with explicit cross-holder agreement (C07_permute_agree, reshape / squeeze dense vs sparse, full o op = op o full), stored-form round trips for every holder (permute by an order then its inverse, reshape and back, partial sparse reshape and back), identity / rejection theorems and the empty-sparse early returns; every run re-checks the theorems and "
         "compares implementation, model and the independent index formula exactly on all N! orders for N<=3 (4 thorough), all factorisations of the element count and every mode subset", _NOTE, "DESIGN.md 7 (C07)"),
 "C16": ("Lean 4 round-trip theorems over a token-level model of export_data/import_data (incl. np.fromfile's reader state) + correspondence on real files",
         "decode b (encodeBase b o) = ok o is proved for dense, sparse (subscripts, values and their order), Kruskal and matrix objects of every order, shape, rank >= 1 and index base; "
         "written subscripts are stored + 1; malformed headers / size lines are rejected. Every run exports real files, compares them token by token with the model's encode, imports them "
         "and compares bit for bit, and checks the premise parse(fmt v) = v on every value token written (whole double exponent range)",
         _NOTE + "; the premise that '%.16e' text is read back bit-exactly by NumPy/libc is outside the theorems and is checked on every value written", "DESIGN.md 7 (C16)"),
 "C13": ("Lean 4 invariants by induction over epochs / draws for executable models of the samplers and of StochasticSolver.solve, SGD/Adam/Adagrad steps and the L-BFGS-B wrapper + differential correspondence with scripted random draws and scripted estimates",
         "samplers are modelled with the random draws as explicit inputs and proved to return in-range subscripts (a draw of exactly 0.0 included), data values at those subscripts, "
         "one value and one weight per subscript and weights totalling the represented cells; solve is a state machine over (model, best, estimates, nfails, traces, optimizer fields) "
         "with the estimates as oracles: proved for all runs that the result is the best epoch-boundary model, its estimate is the minimum of the reported trace (start + one per "
         "completed epoch), nfails bookkeeping, the lower bound after every projected step for all three optimizers, L-BFGS-B not worse under the service contract, and reusability "
         "(a solve on a used object equals a solve on a fresh one); the L-BFGS-B wrapper returns the decode of the solution vector the service reports and reports the objective of that returned model. Semi-stratified 'zeros' are unchecked by design: recorded known finding, theorem _partial",
         _NOTE + "; objective/gradient estimates, sqrt, floor/ceil and the SciPy optimiser enter as oracles/services with stated contracts that the harness checks on recorded calls", "DESIGN.md 7 (C13)"),
 "C12": ("translator (Python AST -> deep-embedded Lean expressions, regenerated on every run) + verified symbolic differentiator + HasDerivAt theorems over the reals; Lean model of fg.evaluate / fg_est.estimate with exact correspondence",
         "the ten built-in loss/gradient pairs and the objective table are re-read from handles.py / fg_setup.py on every run and re-proved: each gradient is the derivative of its loss on the "
         "domain given by the table's lower bound (Huber incl. the kink), the table pairs every objective with its own functions; the tensor-level objective is the weighted sum of the loss, "
         "the returned mode gradients are the exact partial derivatives for models with arbitrary weights (chain rule over the Kruskal sum, all N), all modes at once equals one mode at a time, "
         "and the full-sample unit-weight estimator equals the exact evaluation. A change of a handle that is not an algebraically equal rewrite breaks the proof; the check then searches a grid "
         "over the domain for a point where gradient and derivative differ and reports it",
         _NOTE + "; the translator's reading of the accepted AST subset is trusted and cross-checked numerically against the Python handles on every run; mttkrps is modelled by its defining sum (its kernels are C02)", "DESIGN.md 7 (C12)"),
 "C05": ("Lean 4 store/view model of NumPy storage (buffers, views with offset/shape/strides, F-contiguity computed) with soundness theorems for a static aliasing/purity analysis of every tabled operation + introspection-driven aliasing sweep of the real code",
         "a store-passing model classifies NumPy steps as view / fresh / in-place; every tabled public operation (constructors with and without copying, copy, permute incl. identity and singleton-moving orders, "
         "reshape, squeeze, find, conversions, element-wise operators, ttv/ttm/mttkrp, Kruskal in-place operations, the four __setitem__s, helpers, algorithm entry points) is proved for all stores, shapes, strides and "
         "parameters to leave its operands unchanged and to return storage disjoint from them (or to change exactly its receiver), and disjoint storage is proved to make later writes invisible to the other side. "
         "The sweep covers all 244 public methods found by introspection plus the algorithms: bitwise operand snapshots, np.shares_memory matrix, write-through in both directions, compared with the model",
         _NOTE + "; the view/fresh classification of NumPy calls is trusted and tied to NumPy on every run by a primitive-level family; methods without a step-level entry are modelled as 'computed into new arrays' and checked on the implementation only. Two by-design known findings (sptensor.find, algorithms returning the caller's initial guess)", "DESIGN.md 7 (C05)"),
 "C08": ("Lean 4 refinement/invariant theorems over any linear ordered field for an executable model of the ktensor re-parameterisations (norm, argsort, roots as lawful services) + differential correspondence",
         "normalize (all argument patterns), arrange, fixsigns (alone and against any reference), redistribute, extract, tovec/from_vector/update round trips, tolist, +, -, unary -, scalar *, copy, isequal and score's "
         "bookkeeping are proved for all shapes, orders and ranks to preserve the denoted array (or give the documented sum / multiple) and to reach the promised normal form (unit-or-zero columns in the requested norm, "
         "non-negative weights, decreasing when sorted, all-one after absorption); the laws assumed of norm / argsort / root are discharged for the 1-, 2- and max-norm and a stable argsort. "
         "Not proved (harness only): that score's greedy loop always returns, and the alignment normal form of fixsigns(reference)",
         _NOTE + "; theorems assume an exact square root / N-th root, normalising operations are compared at 1e-12, algebra and round trips exactly", "DESIGN.md 7 (C08)"),
 "C14": ("Lean 4 theorems: Gram matrix of every representation = unfolding Gram (entry-wise, exact), post-processing under an eigen-solver contract, equal-subspace and Ky Fan maximal-energy theorems + exact capture of the matrices handed to the solvers",
         "for dense, sparse, Kruskal and Tucker holders the matrix the code hands to the eigen-solver is proved equal to the sum over the other modes of X[..a..]X[..b..] for all shapes and modes (hence identical across "
         "representations); given orthonormal eigenpairs in any order the post-processing is proved to return r orthonormal eigenvectors for the r largest eigenvalues in decreasing order with the sign rule, two such families "
         "above a spectral gap span the same subspace, and they capture the maximal energy (Ky Fan, proved in full). One known finding: the dense-solver path of sptensor.nvecs permutes rows (cannot be fixed without editing a doctest that encodes the wrong output)",
         _NOTE + "; ARPACK/LAPACK enter as a service with the contract 'orthonormal eigenpairs (the r largest for eigsh)', checked at 1e-8 on every real call", "DESIGN.md 7 (C14)"),
 "C15": ("Lean 4 refinement of both symmetrize versions and all issymmetric variants to the group-average specification over any ordered field + exact rational correspondence",
         "for every well-formed tensor and every list of disjoint, in-range groups of equal-sized modes (proper subsets included) both dense symmetrize versions are proved to return the average over all within-group "
         "mode permutations, the result is symmetric, symmetrising is idempotent and fixes symmetric tensors, the versions agree, every issymmetric variant answers true exactly for invariant tensors, malformed groups "
         "are rejected, and Kruskal symmetrize yields a tensor symmetric in all modes that passes the Kruskal test; exact comparison on all shapes up to 36 cells with every choice of one or two groups",
         _NOTE + "; ktensor.normalize('all') inside the Kruskal symmetrize is an oracle parameter", "DESIGN.md 7 (C15)"),
 "C18": ("Lean 4 relational theorems about abstract algorithm models (interface-only access, observing print branch, draw streams, scaling and relabelling of the ALS / HOSVD / HOOI steps) + paired runs of the real decomposition drivers",
         "proved: an iteration that touches the data only through the interface produces equal state sequences for data objects answering the interface alike (and CP-ALS's sweep is such an iteration, dense and sparse "
         "holders answer alike, CP-APR's sparse sums equal its dense sums); a printing branch that only observes does not change the returned state for any interval (incl. CP-APR's in-place renormalisation); results are "
         "functions of the draw stream; scaling the data scales the ALS update / HOSVD core / HOOI step and keeps the fit and the chosen ranks; consistent mode relabelling commutes with a sweep. "
         "The CP-APR MU loop with its kappa fix-up is modelled and proved printing-independent (C18_print_independent_mu). Whole-run CP-ALS scale equivariance is proved on the concrete C09 model through a column-scaling simulation relation (C18_scale_cpals_run: equal iteration counts and fits, residual and model tensor scaled by c, for any number of passes, both printing branches, after arrange / fixsigns), under a stated regularity hypothesis on the coefficient matrices. Paired runs: dense vs sparse, printing intervals, equal seeds, scale factors, all relabellings for N=3",
         _NOTE + "; that the real kernels compute the specification sums is C02's claim and a hypothesis here; paired runs are compared at 1e-8 (1e-6 for whole-run CP-ALS scaling); ill-conditioned pairs are tagged and not judged", "DESIGN.md 7 (C18)"),
 "C19": ("Lean 4 theorems 'validation prefix accepts iff the stated precondition holds' for models of every operation's argument checking + malformed-request stream against the real code",
         "for every covered public operation (ttv/ttm/mttkrp in all representations, ttt, contract, collapse, scale, permute, reshape, to_tenmat/to_sptenmat, the constructors, from_aggregator, from_vector, extract, "
         "Kruskal mode/permutation arguments, masks, khatrirao, tt_dimscheck, import_data, option validation of the five algorithms, mttkrps, ttsv, symmetrize / issymmetric groups, fixsigns / score with a reference, update, reconstruct, the from_function constructors, tenmat / sptenmat indexing, nvecs counts) the code's checks are modelled in source order incl. the NumPy primitives they rely on, "
         "and validate_op args = ok is proved equivalent to the decidable precondition written from the property's list, for all shapes and arguments; rejected in-place requests are proved to return the input state. "
         "The harness violates each precondition separately across shapes chosen so the violation can broadcast or divide by accident, checks raise/no-raise against the precondition and the model, and compares the receiver bitwise",
         _NOTE + "; any exception counts as rejection; receiver-unchanged for non-in-place operations is checked on the implementation, not proved; no introspected public method is left uncovered (reads / writes by key are C04's, tagged c04:)", "DESIGN.md 7 (C19)"),
 "C02": ("Lean 4 refinement theorems 'kernel as the code composes it = sum over indices' by induction over the modes + exact differential correspondence of implementation, model and specification",
         "every multilinear kernel of every representation is modelled as the composition of transpose / F-reshape / matmul / dot / gather / accumulate the code performs and compared exactly with the executable "
         "sum-over-indices specification on every run. Proved for all shapes and orders: the mode-designation conventions (dims in any order, exclude_dims, one multiplicand per listed mode or per mode), dense and sparse "
         "ttv (all five sparse result branches incl. the 50% densify switch), dense ttm (plain, transposed, list), Tucker full, dense and sparse mttkrp (all three dense branches, Kruskal operand with weights), inner "
         "products and norms, dense and sparse collapse / scale / contract. sum-tensor expansion; and (Props/C02KT.lean) the Kruskal kernels (ttv, mttkrp with factor list or Kruskal operand, inner products with every representation, norm), the Tucker kernels (ttv, ttm plain and transposed, mttkrp, "
         "inner products, norm, both sides of the size switches), every dispatch case of the cross-representation inner product, ttv / mttkrp / innerprod of sum tensors and their linearity. "
         "Also proved: sparse ttm (single mode plain / transposed, lists over distinct modes, equality with the dense kernel on full()), hence Tucker x sparse inner products at full strength; dense ttt (outer product and contraction over listed mode pairs); mttkrps for every admissible split (factor list and Kruskal operand); "
         "sum-tensor mttkrp with a Kruskal operand; ktensor.mask; Tucker full with a sparse core. No _partial theorem is left. Model + specification + exact correspondence only (no theorem): ttensor.reconstruct, sparse-core Tucker ttv, most reject branches of the Kruskal / Tucker / sum kernels",
         _NOTE + "; one by-design known finding: sparse collapse hands a reducer only the stored values (differs from dense for max/min/prod/len)", "DESIGN.md 7 (C02)"),
 "C09": ("translator for the scalar formulas of cp_als.py (regenerated every run) + Lean model of the ALS sweep with solve as a service + theorems over any ordered field with lawful sqrt; one-step trace validation of the real cp_als at Float",
         "proved for all inputs: shape and rank of the result, normal form after the final arrange (columns of 2-norm one or entirely zero with weight zero, weights non-negative and descending), the Kruskal norm "
         "identity, iteration count and stop rule, the returned initial guess, option rejection; relative to the data laws of C02 (inner product and MTTKRP laws): the saved-MTTKRP inner product, residual and fit "
         "formulas incl. the sum-tensor branch for the returned model; relative to the solve contract: normal equations and least-squares optimality of each mode update. Fit monotonicity is proved for the list model itself "
         "(C09_fit_monotone: from pass 1 on every pass does not increase the residual and does not decrease the fit; C09_fit_monotone_run for whole runs; a pass-0 sweep under a stated no-0/0 hypothesis on the column scales). Every run replays recorded cp_als traces (dense, sparse, Tucker, sum data; all mode orders and optdims subsets for N<=3; "
         "given / random / nvecs starts) through the Lean step and recomputes the reported quantities independently",
         _NOTE + "; np.linalg.solve enters as a service whose contract is checked on every recorded call; Float steps are compared at 1e-9 relative; reported residuals are compared on the scale of the cancelled terms", "DESIGN.md 7 (C09)"),
 "C03": ("Lean 4 cell-wise refinement theorems for models of every sparse element-wise operation (XRat = Q with nan/+-inf for division) + enumeration of all pairs of sparsity patterns against NumPy on the expanded arrays",
         "for + - * / (scalar, sparse, dense, Kruskal for *), logical and/or/xor/not, == != and the four orderings, elemfun, ones, mask, extract and the constructor the models follow sptensor.py branch by branch and are proved, "
         "for all shapes, values and stored orders, to give at every cell the dense operation applied to the two denotations, with well-formed results; the facts the code hard-wires at zero (0+x, x*0, 0/0 = nan, x/0 = +-inf, "
         "order facts about 0) are explicit hypotheses discharged for the concrete scalar types. The thorough tier enumerates every pair of sparsity patterns for every shape <= 4 cells x 13 ops x {sparse, dense} "
         "plus all stored orders on small shapes (~330k evaluations); quick samples",
         _NOTE + "; '/' by a Kruskal tensor (epsilon floor) is not modelled", "DESIGN.md 7 (C03)"),
 "C06": ("Lean 4 invariant (WF preserved) and permutation-invariance theorems over the sparse operation models + all-stored-orders sweep of every public sparse operation",
         "permuting the stored entries is proved not to change the denotation or well-formedness; every modelled sparse operation is proved to return a well-formed object from well-formed inputs and the same "
         "denotation for permuted operands (corollaries of the C03 / C07 / C01 refinements); the aggregating constructor is proved well-formed with zero sums dropped, the plain constructor to store what it is given "
         "(and reject what the repaired code rejects). The sweep runs every public sptensor / sptenmat operation found by introspection under all n! stored orders (n <= 4; 24 random beyond), inspecting WF and comparing results across orders",
         _NOTE + "; ttv / ttm / collapse / contract / scale / squash / indexing / the sptenmat constructor / sptendiag / sptenrand now have WF and order-independence theorems over the C02 / C04 / C20 models; copy, __deepcopy__ and the sptenmat unary / from_array helpers are checked on the implementation only", "DESIGN.md 7 (C06)"),
 "C10": ("translator for the scalar formulas of hosvd.py / tucker_als.py (regenerated every run) + Lean models with eigh / nvecs as services + theorems over the reals; Float replay of recorded runs with prescribed spectra",
         "proved for all inputs given the service contracts: HOSVD factors are orthonormal, the core is the data times the transposed factors for both strategies and any mode order, automatic ranks are the least "
         "with discarded tail <= tol^2||X||^2/d, given ranks are kept exactly, and the relative error is <= tol (full proof, sequential and non-sequential); Tucker-ALS: orthonormal factors, core relation, "
         "||X-T||^2 = ||X||^2 - ||G||^2 hence reported fit = recomputed fit, iteration limit. the fit of Tucker-ALS never decreases over iterations (Ky Fan's maximum principle is proved and bridged from C14, so this is unconditional given the nvecs contract)",
         _NOTE + "; eigh / nvecs contracts (orthonormal eigenpairs / leading vectors) are checked on every recorded call; whole runs are replayed at Float with recorded service outputs at 1e-9", "DESIGN.md 7 (C10)"),
 "C11": ("translator for the anchored formulas of cp_apr.py (regenerated every run) + Lean state-machine models of MU / PDNR / PQNR with the search direction as a service + invariants over any ordered field; Float replay and one-step validation",
         "proved for all inputs and ANY search direction: every reachable state of all three variants has non-negative weights and factor entries; shape and rank; KKT violations non-negative with one entry per "
         "outer iteration; iteration limit; the reported objective equals the Poisson log-likelihood of the returned model (dense and sparse, via the sum-of-factor-0 lemma); final normalisations preserve the tensor; "
         "invalid / negative inputs rejected. 'At least as likely as the start' is proved for whole runs of all three variants (row decomposition of the likelihood, majorisation step, line search incl. its fall-back, chained over rows, modes and iterations) "
         "under the decidable hypothesis SafeguardsInactive (no eps clamp changes a denominator, no inadmissible-zero bump, no zero row / zero column norm on that run; satisfiable, with kernel-checked example runs); runs with an active safeguard are checked on the implementation only. "
         "Three narrow known findings: a residual L-BFGS assertion for degenerate guesses, 1-way dense data, sparse data without stored entry",
         _NOTE + "; log is a parameter with two inequalities assumed; 'inputs not modified' is checked bitwise on the implementation", "DESIGN.md 7 (C11)"),
 "C20": ("Lean 4 theorems by structural induction and finite sums over models of the generators with the random draws as explicit inputs + exact correspondence with recorded draws",
         "tenones / tenzeros / tenrand / from_function (layout), tendiag (shape rule, elements longer or shorter), sptendiag, teneye (closed form, symmetry under every mode permutation, and the identity "
         "ttsv(E, x) = (x'x)^(m/2-1) x for ALL even orders and sizes over any field of characteristic 0), from_aggregator (any reducer: well-formed, value = reducer of the values stored under the subscript, zero results dropped, "
         "rejections), sptenrand / sptensor.from_function (well-formed, requested count reached whenever one draw or the ten pooled draws contain enough distinct subscripts, result a function of the first ten draws) "
         "and ktensor.from_function are proved for all inputs; the harness replays recorded np.random draws through the model",
         _NOTE + "; the value function is assumed to return non-zero values (np.zeros would store explicit zeros); floor(u*extent) is exact in the model, double precision in the code", "DESIGN.md 7 (C20)"),
 "C04": ("Lean 4 refinement of the dense and sparse __setitem__ / __getitem__ models to a mutable-array specification, lifted by induction over the operation list + step-by-step correspondence of random histories (implementation, Python oracle, Lean model, Lean spec)",
         "the models follow the code's dispatch and helpers (get_index_variant, _set_linear, _set_subscripts with its change / delete / insert groups, growth of extents and order, _set_subtensor, tt_irenumber, subdims + tt_renumber, extract) and are proved to refine "
         "the abstract F-ordered mutable array for every history of accepted operations (decidable acceptedAt / acceptedAtSparse = every key form and right-hand side the class supports minus the known-finding forms: subscript arrays with any right-hand side incl. growth, repeats and zeros; "
         "linear integer / slice / list keys; regions of integers, slices and one index list with scalar, array, dense-tensor and (sparse) sparse-tensor right-hand sides incl. an open slice on a new mode; region reads); corollaries: last write wins, frame, growth is zero-filled, "
         "well-formedness preserved along every history, zero removes a sparse entry, dense and sparse driven by the same history agree. Excluded and named: the two dense advanced-indexing forms and the sparse read with a repeated list entry (known findings), forms the class itself refuses, and right-hand sides that fit only after NumPy broadcasting",
         _NOTE + "; NumPy basic / advanced indexing and assignment broadcasting are model primitives", "DESIGN.md 7 (C04)"),
}


# --- session-5 extensions (appended; the tuples above are kept as they were) -------------------------------------
def _ext(pid, more=None, note_old=None, note_new=None):
    tech, text, note, ref = CLAIMED[pid]
    if more:
        text = text.rstrip(". ") + ". " + more
    if note_old and note_old in note:
        note = note.replace(note_old, note_new)
    CLAIMED[pid] = (tech, text, note, ref)


_ext("C02", "Since session 5 also proved for all inputs: tensor.ttsv (both algorithm versions, every skip_dim, all orders and sizes, "
     "result kinds, rejections, versions agree - after two repairs of the default version found through the model), the Tucker "
     "kernels innerprod / norm / mttkrp with a SPARSE core (every operand kind, both sides of the size switches; equal to the "
     "dense-core kernels on the expanded core), and the reject branches of get_mttkrp_factors and of the Kruskal / Tucker / sum "
     "kernels (97 theorems)")
_ext("C06", "Since session 5: the remaining sptenmat operations (copy, unary +/-, __setitem__ with repeated cells and zero values, "
     "double, full, norm, nnz, isequal, to_sptensor) are modelled with well-formedness and order-independence theorems for every key "
     "and value (five genuine defects found through them were repaired in /repo), the sparse subtensor returned by a region READ is "
     "proved well-formed, sptensor.copy is modelled (91 theorems)",
     "; copy, __deepcopy__ and the sptenmat unary / from_array helpers are checked on the implementation only",
     "; sptenmat.from_array is checked on the implementation only")
_ext("C08", "Since session 5: score is proved to RETURN a full matching on every admissible request (greedy loop invariant; score value = "
     "mean of the matched congruences; non-greedy requests rejected), fixsigns(reference) reaches its alignment normal form (at most one "
     "negatively correlated mode per component, none when their number is even; optimal among tensor-preserving flips) and is idempotent, "
     "normalize() is idempotent with NF as its fixed points, arranging by p then q is arranging by the composition (60 theorems)")
_ext("C15", "Since session 5 the Kruskal clauses 'an already symmetric tensor keeps its value' (component-wise symmetric normalised copy, "
     "any order and parity, zero weights / columns; corollary from the un-normalised input with lawful services), 'symmetrising again "
     "changes nothing' (same array) and invariance of the result array under every mode permutation are proved (28 theorems)")
_ext("C18", "Since session 5 whole-run theorems on the concrete models: relabelling the modes of data, guess and mode order relabels the "
     "result of cp_als (same decisions, fits and iteration count; factor lists under the stated parity condition of fixsigns, with a "
     "counterexample outside it = known finding F18-fixsigns-relabel), of hosvd and of tucker_als; scaling the data scales the Tucker-ALS "
     "core and leaves factors, fits and the stop iteration unchanged (nvecs contract stated without reference to scaling; determinacy "
     "of the leading eigenvectors is a hypothesis on the first run) (50 theorems)")
_ext("C01", "Since session 5: what the converted object REPORTS (tshape, mode split after every convention, matrix shape, nnz = number "
     "of non-zero cells) is proved for to_tenmat / to_sptenmat / to_sptensor and for the tenmat constructor (after the repair of a "
     "constructor defect found through the model), double() / to_tensor() of all seven classes equal full(), ktensor.to_tenmat equals "
     "full().to_tenmat and the Khatri-Rao form, and any well-typed CHAIN of conversions starting from any well-formed holder ends in a "
     "well-formed holder denoting the same array (48 theorems)")
_ext("C05", "Since session 5 the table has 87 step-level entries: tenmat (constructor per layout and copy flag, ctranspose with real / complex "
     "conj, arithmetic), sptenmat, ttensor (dense or sparse core), sumtensor (any list of parts), and the remaining ktensor methods are "
     "modelled step by step through a compositional analysis (programs calling programs, C05_static_compositional / C05_call_pureFresh) "
     "instead of the generic 'computed into new arrays' entry (51 theorems)")
_ext("C12", "Since session 5: the handle translator reads the realistic rewrites of handles.py / fg_setup.py (np.where / conditional expressions, "
     "comparisons in either orientation, maximum / minimum / clip, log1p, sqrt, inlined helpers, partial / lambda bindings; 19 harmless and 6 "
     "harmful rewrites in tools/handles_rewrites_selftest.py) and the per-pair derivative proofs close by normalisation instead of matching the "
     "pinned syntax; new theorems: the sampled estimator with ARBITRARY sample weights and repeats (C12_estimate_weighted), the crng correction "
     "of the semi-stratified sampler (C12_estimate_crng), gradients = partial derivatives of the returned sampled objective, evaluate with a 0/1 "
     "mask = the loss over the unmasked entries (33 theorems)")
for _p in ("C09", "C10", "C11"):
    _ext(_p, "Since session 5 the formula translator finds its anchors through the data flow (harness/translate/flow.py: symbolic execution of the "
         "function body, helpers inlined, roles instead of variable names), so helper extraction / renamed locals are read as the pinned "
         "definitions while every seeded harmful change at an anchor is read as different or lost (tools/translator_selftest.py)")
_ext("C04", "Since session 5 (after the mutation measurement): the dispatch on the Python TYPE of the key object (get_index_variant and the top of both "
     "__setitem__s) and the two argument conventions of sptensor.extract are modelled; every documented spelling of a key is proved to reach that "
     "key's operation model, an unrecognised key object is proved to be refused (never ignored) (20 theorems); histories carry spellings (Python "
     "lists / NumPy scalars / index arrays / value vectors), objects that are no index, the empty dense starts")
_ext("C13", "Since session 5: fg_setup.setup's data checks (binary / natural / non-negative, dense and sparse) and lower bounds are modelled and proved "
     "as conditions on ALL entries (two defects found through them repaired in /repo), zeros(with_replacement=False) is proved in range / true zeros / "
     "distinct (47 theorems); gcp_opt is driven with every objective on admissible and inadmissible data and with random / list / ktensor starts")
_ext("C19", "Since session 5 (133 theorems): integer extents (zero / negative) for the sparse constructors, ttsv multiplicands, ttensor components, typed ktensor "
     "components, subdims, sparse-tensor right-hand sides of index-list regions; plus a family without theorem that hands operands of an unsupported TYPE "
     "to every public binary operation and demands an exception (three defects found by it repaired in /repo)")
_ext("C11", "Since session 5: an implementation that raises on a request the model's argument checks accept is a violation (was: counted as a common "
     "rejection); long runs over the full option space (precompinds, inexact, lbfgsMem, epsActive, mu0) on dense and shuffled-sparse storage; the L-BFGS "
     "assertion known finding is accepted only where an independent replay of the slot bookkeeping agrees")
_ext("C05", "Degenerate parameter cases (receivers without nonzeros, already symmetric data, empty mode selections, single-matrix Khatri-Rao, identity scalars / "
     "matrices, algorithms that stop at once) are swept for every operation, with object-level identity and write-through observations (54 theorems, 90 entries)")
_ext("C19", "After the second triage round: 150 theorems (multiplicands given by shape for ttv, N-d arguments of khatrirao / from_vector / parse_shape, "
     "coupled constructor arguments of sptensor / sptenmat, tenfun arity, short subscript rows rejected before the first write), equal-product "
     "mismatches for mttkrp / ttt, a sparse_read family for out-of-range index-list entries")
_ext("C08", "from_vector is asserted on 1-d / column / row parameter vectors with both weight flags against a written-out inverse of tovec (one defect "
     "found by it repaired in /repo)")
_ext("C17", "The row helpers are driven with every spelling of 'no rows' (1-d empty of either dtype, 0x0, 0xk of another width, 0xkx1) as either operand")
_ext("C02", "ttv with ONE bare ndarray multiplicand on every mode (singleton and longer) of all five representations is asserted")
_ext("C01", "Kruskal / Tucker / sum holders report ndims / shape consistently (sum tensors with exactly 1, 2, 3 parts); sptensor.spmatrix and Tucker tensors "
     "with scipy.sparse factor matrices are covered (five defects found by them repaired in /repo)")
_ext("C16", "Since session 6 the premise parse(fmt v) = v is itself derived in Lean (C16_digits_roundtrip, C16_digits_discharges_hypothesis: for every finite nonzero "
     "binary64 value, normal or subnormal, binade boundaries included, a nearest 17-significant-digit decimal read back to a nearest double is the value itself, "
     "under any tie rule; 16 digits are proved insufficient by a witness) from two contracts of libc / NumPy - the printed token is a nearest 17-digit decimal, the reader "
     "returns a nearest finite double - which the harness checks with exact rational arithmetic on every binade boundary and its neighbours; explicitly stored zeros of "
     "either sign are round-tripped in every holder",
     "the premise that '%.16e' text is read back bit-exactly by NumPy/libc is outside the theorems and is checked on every value written",
     "the two correct-rounding contracts of printf('%.16e') and the strtod-based reader (nearest 17-digit decimal / nearest double) are outside the theorems and are "
     "checked exactly on every value written")
_ext("C03", "Since session 6 the Kruskal right-hand sides are modelled as coded and proved too (C03_div_kruskal, C03_div_kruskal_xrat, C03_rmul_kruskal, the reject theorems; "
     "C03_div_kruskal_dense says when the coded quotient is the dense one, a decided counterexample shows when it is not - outside the letter of the property, noted in FINDINGS) "
     "with a kruskal_rhs family (75 theorems)")
