NOT_YET = {}
_NOTE = ("Lean kernel + axioms {propext, Classical.choice, Quot.sound}; theorems are about the hand-written model over exact "
         "arithmetic; the model is tied to /repo by the correspondence harness on generated inputs (generator coverage bounds it); "
         "NumPy primitives are modelled by their logical semantics, IEEE rounding is not modelled")
CLAIMED = {
 "C17": ("Lean 4 theorems (induction on shapes / row lists) + differential correspondence of the executable model with pyttb_utils/khatrirao",
         "sub2ind/ind2sub are proved mutually inverse F-order bijections for every shape; tt_dimscheck, the four row-set helpers and khatrirao "
         "are modelled branch by branch and proved against their set-algebra / Kronecker specifications for all inputs; every run rebuilds the "
         "theorems, audits their axioms and compares model and implementation exactly on generated and enumerated inputs including repeated rows, "
         "negative and out-of-range indices and every dims/exclude/M combination for small N", _NOTE, "DESIGN.md 7 (C17)"),
}
