#!/venv/bin/python
"""tools/triage_prompt.py <results.jsonl> <file> <worktree> : prompt for a sub-agent that triages the SURVIVING mutants of one
source file (tools/mutate.py): equivalent / behaviour changes but no listed property is violated / violates property Cxx (with demo)."""
import json, sys
res, file, wt = sys.argv[1:4]
files = file.split(',')
MUT = {m['id']: m for m in json.load(open(sys.argv[4]))} if len(sys.argv) > 4 else {}
props = [json.loads(l) for l in open('/verif/properties.jsonl')]
rel = [p for p in props if any(f in p['anchors']['files'] for f in files)]
rs = [json.loads(l) for l in open(res) if l.strip()]
sv = [r for r in rs if r['status'] == 'survived' and r['file'] in files]
print(f'''You are triaging small code mutations of the Python package pyttb (sandialabs/pyttb, a port of the MATLAB Tensor Toolbox). You have a scratch git worktree of the repository at {wt} (work ONLY there; never touch /repo or /verif; do not read /verif). Python: `/venv/bin/python` with `PYTHONPATH={wt}`. No network.

Below is a list of one-token mutations of `{file}` (each applied ALONE to the pristine file: replace the text `old` by `new` at the given line, starting at the given 0-based column - when the same text occurs more than once on the line it is the occurrence at that column that counts) that keep the package's 208 doctests green. For EACH mutation decide, by reading the code and by experiment (apply the mutation in your worktree, run small experiments through the public API, then restore the file with `git -C {wt} checkout -- pyttb`), which of these holds:
  - "equivalent": no observable behaviour change for any input (e.g. a transpose of a 1-d array, commutative arguments, a branch that cannot be reached, a slice bound beyond the array end);
  - "no-property": behaviour changes for some input, but NONE of the properties listed below is violated (e.g. an internal search direction changes but everything the properties promise still holds; a printed line changes; an error message changes; a rejected request is rejected by a later statement instead);
  - "violates": some input exists for which one of the properties below is violated through the public API. Then write a minimal demonstration `{wt}/_triage/<id>.py` (run as `PYTHONPATH=<root> /venv/bin/python <id>.py`; exits 0 on the pristine tree and 1, printing what went wrong, on the mutated tree; plain numpy reference, no pyttb helpers for the reference) and VERIFY both exits yourself.
Be careful and concrete: prefer "violates" only with a working demo; if you suspect a violation but cannot build a demo in reasonable time say "suspect" and explain.

## Properties (only these matter)
''')
for p in rel:
    print(f"- {p['id']} {p['title']}: {p['statement']} [Quantifier: {p['quantifier']['text']}]\n")
print("## Mutations\n")
for r in sv:
    print(f"- {r['id']}: {r['file']} line {r['line']} col {MUT.get(r['id'], {}).get('col', '?')} in `{r['func']}`: `{r['old']}` -> `{r['new']}`  ({r['op']})")
print(f'''
## Deliverable
Write `{wt}/_triage/result.json`: a JSON list of {{"id": ..., "class": "equivalent"|"no-property"|"violates"|"suspect", "property": "Cxx" or null, "why": "one or two sentences", "needs": "for violates: what input is needed", "demo": "<id>.py" or null}} with one entry per mutation above, and leave the worktree clean (`git -C {wt} status --short` shows only `_triage/`). Final message: counts per class and the list of violating ids with one line each.''')
