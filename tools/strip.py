import ast,sys
src=open(sys.argv[1]).read()
tree=ast.parse(src)
lines=src.split('\n')
kill=set()
for node in ast.walk(tree):
    if isinstance(node,(ast.FunctionDef,ast.ClassDef,ast.Module,ast.AsyncFunctionDef)):
        b=node.body
        if b and isinstance(b[0],ast.Expr) and isinstance(b[0].value,ast.Constant) and isinstance(b[0].value.value,str):
            for i in range(b[0].lineno,b[0].end_lineno+1): kill.add(i)
for i,l in enumerate(lines,1):
    if i in kill: continue
    if l.strip()=='' : continue
    print(f"{i}\t{l}")
