#!/venv/bin/python
"""Record the current AST hashes of every property's modelled functions (run after /repo changes
that the models have been brought in line with)."""
import importlib, sys
sys.path.insert(0, "/verif"); sys.path.insert(0, "/repo")
from harness import drift
import pathlib
for f in sorted(pathlib.Path("/verif/harness/props").glob("c[0-9][0-9].py")):
    prop = f.stem.upper()
    try:
        mod = importlib.import_module(f"harness.props.{f.stem}")
    except Exception as e:
        print(prop, "import failed", e); continue
    anchors = list(getattr(mod, "ANCHORS", None) or []) + drift.file_anchors(prop)
    if anchors:
        drift.update(prop, anchors)
        missing = [k for k, h in drift.current(anchors).items() if h is None]
        print(prop, len(anchors), "anchors", ("MISSING " + str(missing)) if missing else "")
