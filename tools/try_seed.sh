#!/bin/sh
# tools/try_seed.sh <worktree-with-change-applied> <prop> [tier]  : run a check against a changed copy of the repo
wt=$1; prop=$2; tier=${3:-quick}
cd /verif
VERIF_EVIDENCE_DIR=/tmp/seed_evidence PYTTB_REPO=$wt PYTHONPATH=$wt ./check $prop --tier $tier 2>&1 | grep -E "VIOLATION|KNOWN|^\[C|INTERNAL" | cut -c1-400
