#!/bin/sh
# tools/after_repo_fix.sh : run after every new commit in /repo that the models have been brought in line with:
# refreshes the pinned generated definitions (translator fall-back) and the drift anchors (function- and file-level hashes).
cd /verif || exit 2
tools/update_pinned.sh && /venv/bin/python tools/update_anchors.py
