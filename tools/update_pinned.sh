#!/bin/sh
# tools/update_pinned.sh : regenerate lean/PyttbModel/Generated/* from the UNCHANGED /repo and pin the result as the
# fall-back definitions used when a translator loses an anchor (harness/translate/__init__.py).  Run on a clean /repo only.
cd /verif || exit 2
test -z "$(git -C /repo status --porcelain)" || { echo "/repo has local changes - refusing"; exit 1; }
PYTHONPATH=/repo /venv/bin/python -c "
import sys; sys.path.insert(0, '/verif')
from harness import translate
info = {}
for p in ('C09', 'C10', 'C11', 'C12'):
    lost = translate.run(p, info)
    assert not lost, lost
print(info)
"
cp lean/PyttbModel/Generated/*.lean harness/translate/pinned/
git status --short harness/translate/pinned lean/PyttbModel/Generated
