#!/venv/bin/python
"""tools/keep_seed.py <key> <prop> <caught:yes|no> "<note>" : confirm a seeded change from /tmp/seed/<key>
in a fresh scratch worktree of /repo HEAD (tests pass with it, demo fails with it and passes without),
then store it under /verif/seeded/<key>/ and remove the scratch worktrees."""
import json, os, shutil, subprocess, sys
key, prop, caught, note = sys.argv[1:5]
src = f"/tmp/seed/{key}"
out = f"{src}/_out"
wt = f"/tmp/seedconfirm/{key}"
os.makedirs("/tmp/seedconfirm", exist_ok=True)
run = lambda *a, **k: subprocess.run(*a, capture_output=True, text=True, **k)
run(["git", "-C", "/repo", "worktree", "remove", "--force", wt])
r = run(["git", "-C", "/repo", "worktree", "add", "--detach", wt, "HEAD"]); assert r.returncode == 0, r.stderr
env = dict(os.environ, PYTHONPATH=wt)
rec = {}
d0 = run(["/venv/bin/python", f"{out}/demo.py"], env=env, cwd=wt)
rec["demo_on_unchanged_head"] = d0.returncode
a = run(["git", "-C", wt, "apply", f"{out}/patch.diff"])
rec["patch_applies_to_head"] = (a.returncode == 0)
if a.returncode != 0:
    print("PATCH DOES NOT APPLY TO HEAD:", a.stderr[:300])
else:
    t = run(["/venv/bin/python", "-m", "pytest", "-q", "-p", "no:cacheprovider"], env=env, cwd=wt)
    rec["tests_with_change"] = t.stdout.strip().split("\n")[-1]
    d1 = run(["/venv/bin/python", f"{out}/demo.py"], env=env, cwd=wt)
    rec["demo_with_change"] = d1.returncode
    rec["demo_output_tail"] = (d1.stdout + d1.stderr)[-400:]
    head = run(["git", "-C", "/repo", "rev-parse", "--short", "HEAD"]).stdout.strip()
    rec["confirmed_against_repo_commit"] = head
print(json.dumps(rec, indent=1))
ok = rec.get("patch_applies_to_head") and rec["demo_on_unchanged_head"] == 0 and rec.get("demo_with_change") == 1 and "208 passed" in rec.get("tests_with_change", "")
dst = f"/verif/seeded/{key}"
if ok:
    os.makedirs(dst, exist_ok=True)
    shutil.copy(f"{out}/patch.diff", dst); shutil.copy(f"{out}/demo.py", dst)
    meta = json.load(open(f"{out}/meta.json"))
    meta.update({"breaks_property": prop, "confirmation": rec, "caught_by_check": caught, "note": note,
                 "what_i_ran": f"git worktree of /repo HEAD; demo.py before the patch (exit 0); git apply patch.diff; "
                               f"pytest (208 passed); demo.py (exit 1); PYTTB_REPO=<worktree> ./check {prop} --tier quick"})
    json.dump(meta, open(f"{dst}/meta.json", "w"), indent=1)
    print("KEPT", dst)
else:
    print("NOT KEPT")
run(["git", "-C", "/repo", "worktree", "remove", "--force", wt])
run(["git", "-C", "/repo", "worktree", "remove", "--force", src])
run(["git", "-C", "/repo", "worktree", "prune"])
