#!/venv/bin/python
"""Regenerate section 12 of DESIGN.md (seeded changes: which check catches which) from /verif/seeded/*/meta.json and MATRIX.json."""
import glob, json, os, re
M = json.load(open('/verif/seeded/MATRIX.json')) if os.path.exists('/verif/seeded/MATRIX.json') else {}
rows = []; missed = []; n = 0
for f in sorted(glob.glob('/verif/seeded/*/meta.json')):
    k = os.path.basename(os.path.dirname(f)); m = json.load(open(f)); n += 1
    prop = m.get('breaks_property', m.get('property'))
    mat = M.get(k, {}).get('seeds', {})
    det = ' '.join(('V' if v.get('violation_lines') else '-') for _, v in sorted(mat.items())) if mat else 'n/a'
    note = m.get('note', '').replace('|', '/').replace('\n', ' ')
    first = 'as built' if note.startswith('caught as built') else 'after strengthening'
    files = ', '.join(os.path.basename(x) for x in m.get('files', []))
    summ = m.get('summary', '').replace('|', '/').replace('\n', ' ')
    short = summ if len(summ) <= 150 else summ[:147].rsplit(' ', 1)[0] + ' …'
    rows.append(f"| {k} | {prop} | {files} | {short} | {first} | {det} |")
    if first != 'as built':
        missed.append(f"* **{k}** ({prop}) — {note}.")
body = []
body.append("## 12. Seeded changes: which check catches which\n")
body.append(f"""{n} property-breaking changes were produced by fresh sub-agents that were given only the text of
one property, an "angle" (an area of the code to look at) and a scratch worktree of /repo
(`tools/seed_prompt.py` writes the prompt; nothing from /verif is visible to them). Each
change keeps the 208 doctests passing and comes with a demonstration script that exits 0
on the unchanged code and 1 on the changed code. `tools/keep_seed.py` re-confirms every
change in a fresh worktree of the current /repo HEAD (patch applies, 208 passed, demo 0 →
1) and stores it under `/verif/seeded/<id>/` (`patch.diff`, `demo.py`, `meta.json`); none
of them was ever committed to /repo. `tools/seed_matrix.py` applies each change to a
scratch worktree, runs the property's **quick** check with `VERIF_SEED` 0, 1, 2 (evidence
redirected with `VERIF_EVIDENCE_DIR`, so the committed evidence never comes from a
changed tree) and records the outcome in `seeded/MATRIX.json`; `V` below means the check
exited 1 with a `VIOLATION property=<id> replay=<file>` line whose replay file holds a
concrete failing input for the real code. The full table with the complete descriptions
and what each change needs to manifest is `seeded/TABLE.md`.

Two rounds were run. Round 1 (ids ending in a / b / c): two changes per property; round 2
(ids ending in r, plus C04a / C04b): one more per property with a different angle, after
the round-1 misses had been repaired. In every case where a change was missed, the repair
was to the *class* of input the harness never produced (never to the particular change):
the property's builder was told which class of input distinguishes the changed code and
nothing about the patch itself. After strengthening, every one of the {n} changes is
reported for every seed tried; on the unchanged tree all 20 checks exit 0 for the same
seeds.

| id | property | file | change | caught | quick, seeds 0 1 2 |
|---|---|---|---|---|---|""")
body += rows
body.append("\n### Changes that were missed at first, and what was added\n")
body += missed
body.append("""
### What this says about the checks

* A change in a *mirrored* function (the model follows the code line by line: C09–C12
  translators, C17 helpers, the sparse element-wise operators) is reported by the
  correspondence the moment an input reaches the changed line; the proofs then say which
  theorem no longer speaks about the code. The seeds in those functions were caught as
  built.
* A change behind a *data-dependent switch* (the 50 % densify rule, `min_split` of
  `mttkrps`, the `nvecs` dense / sparse solver switch, the `optdims` subset, printing
  options, sampler kinds) is caught only if the generator enumerates both sides of the
  switch. Most misses of both rounds were of this kind (the others were value classes the
  generators never drew: signed rows, narrow dtypes, non-F-contiguous buffers, extents
  beyond 2**53, extreme scales); the generators now enumerate the switch outcomes
  instead of sampling them, and the evidence files record per-family case counts.
* Aliasing and in-place changes (C05, C08) are invisible to value comparison; they are
  caught by the bitwise snapshots and the sharing matrix of the heap model, and for
  sequences by the `sequences` family of C08.
* Several changes are reported by more than one property's check (C06a also by C03,
  C06r also by C02, C08r also by C05); the table
  lists the property the sub-agent was given.
""")
text = open('/verif/DESIGN.md').read()
new = "\n".join(body)
if '## 12. Seeded changes' in text:
    text = text[:text.index('## 12. Seeded changes')] + new
else:
    text = text.rstrip('\n') + "\n\n---------------------------------------------------------------------------\n\n" + new
open('/verif/DESIGN.md', 'w').write(text)
print(n, "rows;", len(missed), "missed-first")
