#!/venv/bin/python
"""Regenerate section 12 of DESIGN.md (seeded changes: which check catches which) from /verif/seeded/*/meta.json and MATRIX.json."""
import glob, json, os, re
M = json.load(open('/verif/seeded/MATRIX.json')) if os.path.exists('/verif/seeded/MATRIX.json') else {}
rows = []; missed = []; n = 0
for f in sorted(glob.glob('/verif/seeded/*/meta.json')):
    k = os.path.basename(os.path.dirname(f)); m = json.load(open(f)); n += 1
    prop = m.get('breaks_property', m.get('property'))
    mat = M.get(k, {}).get('seeds', {})
    det = ' '.join(('V' if v.get('violation_lines') else '-') for _, v in sorted(mat.items())) if mat else 'n/a'
    note = m.get('note', '').replace('|', '/').replace('\n', ' ')
    first = 'as built' if note.startswith('caught as built') else 'after strengthening'
    files = ', '.join(os.path.basename(x) for x in m.get('files', []))
    summ = m.get('summary', '').replace('|', '/').replace('\n', ' ')
    short = summ if len(summ) <= 150 else summ[:147].rsplit(' ', 1)[0] + ' …'
    rows.append(f"| {k} | {prop} | {files} | {short} | {first} | {det} |")
    if first != 'as built':
        missed.append(f"* **{k}** ({prop}) — {note}.")
body = []
body.append("## 12. Seeded changes: which check catches which\n")
body.append(f"""{n} property-breaking changes were produced by fresh sub-agents that were given only the text of
one property, an "angle" (an area of the code to look at) and a scratch worktree of /repo
(`tools/seed_prompt.py` writes the prompt; nothing from /verif is visible to them). Each
change keeps the 208 doctests passing and comes with a demonstration script that exits 0
on the unchanged code and 1 on the changed code. `tools/keep_seed.py` re-confirms every
change in a fresh worktree of the current /repo HEAD (patch applies, 208 passed, demo 0 →
1) and stores it under `/verif/seeded/<id>/` (`patch.diff`, `demo.py`, `meta.json`); none
of them was ever committed to /repo. `tools/seed_matrix.py` applies each change to a
scratch worktree, runs the property's **quick** check with `VERIF_SEED` 0, 1, 2 (evidence
redirected with `VERIF_EVIDENCE_DIR`, so the committed evidence never comes from a
changed tree) and records the outcome in `seeded/MATRIX.json`; `V` below means the check
exited 1 with a `VIOLATION property=<id> replay=<file>` line whose replay file holds a
concrete failing input for the real code. The full table with the complete descriptions
and what each change needs to manifest is `seeded/TABLE.md`.

Eight rounds were run. Round 1 (ids ending in a / b / c): two changes per property; round 2
(ids ending in r, plus C04a / C04b), rounds 3 and 4 (s, t), round 5 (u), round 6 (v), round 7 (w, ten properties, after the
mutation-driven strengthening of 12.3) and a last round 8 (y, fourteen properties, aimed at the less used options and entry points): one more per property each, with a different angle every time (round 5: the less-travelled
methods; round 6: multi-step histories, second calls on the same object, cooperating
sites), always after the misses of the round before had been repaired. In every case where
a change was missed, the repair was to the *class* of input the harness never produced
(never to the particular change). Rounds 5 to 7 (50 changes): 43 caught as built with a
concrete failing input for every seed, 7 after strengthening (C02u, C14u, C15u, C04v,
C14v, C13w, C18w; the classes were: mode pairings that only repeated extents make valid, data of
magnitude 1e-9, a Kruskal tensor that is already symmetric, a right-hand-side object that
is used twice in one history, holders whose modes share one array object, a direct L-BFGS-B solve from a start with
non-unit weights, caller-given HOSVD ranks crossed with the verbosity levels). Round 8 (14 changes): 12 caught as built for every seed, 2 after
strengthening (C06y: sub-tensor extraction with index lists that are not increasing was only sampled, now enumerated; C16y: sparse
cases never stored an explicit zero, so a `-0.0` written as `0` was never generated - sparse cases now store zeros of either sign). The complete
matrix was re-run on the current tree after round 5: it showed one change recorded as
caught that was in fact caught only by luck of the sample (C01s; the Kruskal split point
is now enumerated) and one change that no longer applies (C13s: the repair 6b9ef45
re-evaluates the objective at the returned vector, which subsumes the update the change
dropped). After strengthening, every applicable change is reported for every seed tried;
on the unchanged tree all 20 checks exit 0 for the same seeds. The matrix measures the
QUICK tier with the drift detector switched off (`VERIF_NO_DRIFT=1`); in normal use a
change to any file a property is anchored in widens that property's run to the thorough
size (4.4), so the numbers below are a lower bound.

| id | property | file | change | caught | quick, seeds 0 1 2 |
|---|---|---|---|---|---|""")
body += rows
body.append("\n### Changes that were missed at first, and what was added\n")
body += missed
body.append("""
### What this says about the checks

* A change in a *mirrored* function (the model follows the code line by line: C09–C12
  translators, C17 helpers, the sparse element-wise operators) is reported by the
  correspondence the moment an input reaches the changed line; the proofs then say which
  theorem no longer speaks about the code. The seeds in those functions were caught as
  built.
* A change behind a *data-dependent switch* (the 50 % densify rule, `min_split` of
  `mttkrps`, the `nvecs` dense / sparse solver switch, the `optdims` subset, printing
  options, sampler kinds) is caught only if the generator enumerates both sides of the
  switch. Most misses of both rounds were of this kind (the others were value classes the
  generators never drew: signed rows, narrow dtypes, non-F-contiguous buffers, extents
  beyond 2**53, extreme scales); the generators now enumerate the switch outcomes
  instead of sampling them, and the evidence files record per-family case counts.
* Aliasing and in-place changes (C05, C08) are invisible to value comparison; they are
  caught by the bitwise snapshots and the sharing matrix of the heap model, and for
  sequences by the `sequences` family of C08.
* Several changes are reported by more than one property's check (C06a also by C03,
  C06r also by C02, C08r also by C05); the table
  lists the property the sub-agent was given.
""")
# 12.2 harmless refactorings
H = []
for f in sorted(glob.glob('/verif/harmless/*/meta.json')):
    k = os.path.basename(os.path.dirname(f)); m = json.load(open(f))
    cr = m.get('check_result', {})
    summ = m.get('summary', '').replace('|', '/').replace('\n', ' ')
    short = summ if len(summ) <= 170 else summ[:167].rsplit(' ', 1)[0] + ' …'
    H.append(f"| {k} | {m.get('keeps_property')} | {m.get('kind', '?')} | {', '.join(os.path.basename(x) for x in m.get('files', []))} | {short} | "
             f"{'exit 0' if cr.get('rc') == 0 else 'ALARM'}{' + ANCHOR-LOST advisory' if cr.get('anchor_lost_advisory') else ''} |")
body.append(f"""
### 12.2 Harmless refactorings: the checks stay quiet

The counterpart experiment (`tools/harmless_prompt.py`, `tools/harmless_matrix.py`, kept under `/verif/harmless/<id>/`
with `patch.diff`, `probe.py`, `meta.json`): fresh sub-agents, again given only a property's text and a scratch
worktree, produced {len(H) - 1} realistic refactorings (plus one by the maintainer, C18z) of 15-80 changed lines each after which the package behaves the same
for every input - kind A structural (helper extraction, renamed locals, merged branches, `assert` <-> `raise`,
comprehensions; results bit-identical) and kind B numerically equivalent (another association or library route; results
equal up to rounding). Each comes with a probe script whose recorded outputs (values as float hex, shapes, dtypes,
exception classes, mutation and sharing) are identical on both trees (kind B: within 1e-12). A check that prints a
VIOLATION line on such a tree raises an alarm on code where the property holds. Outcome on the current tree (quick tier,
VERIF_SEED 0 and 1): every check exits 0 (the table shows the state after the repairs described below). Four structural refactorings (C09h, C10h, C11h, C18h) move anchored statements
into helpers or rename the variables the translators look for; before session 5 they ended in `VIOLATION …
no-failing-input-found` and, through the shared driver, so did all the other checks; now the pinned definitions are used,
the correspondence runs at the thorough size and agrees, and the check prints an `ANCHOR-LOST (advisory)` line and exits 0
(4.2). They are kept as regression cases for the translators. Round 4 (session 6: C03z, C06z, C07z, C16z, C19z, C20z by sub-agents, C18z by the
maintainer) was run with the drift detector on AND off; five were quiet as built; C20z (the generators draw their unit variates with
`np.random.random_sample(size)` instead of `np.random.uniform(0, 1, size)`: the same doubles of the global stream) ALARMED: the C20 harness
recorded draws through one function name, so the model saw no draws. No property says which function of the global stream is called;
`lib.unit_spellings` now routes `random_sample` / `random` / `ranf` / `sample` / `rand` through whatever stand-in a family installs for
`np.random.uniform` (C06, C13, C18, C20; the C10 trace proxy likewise), and C18z - the same respelling in every algorithm, sampler and
generator - is kept as the regression case for it (it alarmed C10 as built). A switch to a private generator is still seen: nothing is recorded.

| id | property | kind | files | refactoring | check |
|---|---|---|---|---|---|""")
body += H
# 12.3 mutation measurement
if os.path.exists('/verif/seeded/mutants/summary.json'):
    S = json.load(open('/verif/seeded/mutants/summary.json'))
    body.append(f"""
### 12.3 Systematic mutants: a measurement, and what it changed

`tools/mutate.py` enumerates one-token mutations of the 22 source files the properties are anchored in (comparison and
arithmetic operators, `and`/`or`, dropped `not` / unary minus / `.copy()` / `.T` / `.transpose()`, small integer constants
+-1, boolean constants, `axis`, `order`, swapped arguments of two-argument calls, slice bounds; function bodies only, at most
10-40 per function): {S['generated']} mutants. A mutant that fails the 208 doctests is not a realistic breakage and is dropped
({S['tests']}). Each of the remaining {S['green']} was run against the quick checks of the properties anchored in its file (drift
detector off, i.e. plain quick size) by twelve workers, each with a private worktree of /repo and a private copy of /verif.
First pass: {S['killed_first']} killed ({S['killed_first_pct']}%), {S['survived_first']} survived. {S['triaged']} survivors were
triaged by independent sub-agents that saw only the property texts and the mutation list (`tools/triage_prompt.py`):
{S['equivalent']} equivalent (transpose of a 1-d array, commutative arguments, unreachable branch ...), {S['no_property']}
change behaviour without violating any of the twenty properties (an internal search direction, a log line, an exception
class, a later statement rejects the request), {S['violating']} violate a property, each with a demonstration script
(`seeded/mutants/violating_survivors.json`, `seeded/mutants/demos/`). What the violating survivors had in common, and what
was changed:

* **The check died instead of reporting** (15): the family called the implementation bare on an input it has to
  answer, the mutant made it raise, the harness ended with exit 2. `run.py` now re-evaluates case by case; an exception
  inside the package under test on such an input is a violation with that case as the replay (`robust_evaluate`).
* **Input classes never generated** (the rest), repaired per property by strengthening builders that were given the
  classes: Python lists / NumPy scalars / one-element lists as keys, unrecognised key objects, `extract` called directly,
  the empty dense start (C04); receivers without nonzeros, already-symmetric data, empty mode selections, object identity
  (C05); `precompinds=False` on sparse data and the L-BFGS memory options (C11); admissible and inadmissible data for every
  GCP objective through `setup` and `gcp_opt`, random / list / ktensor starts, `zeros` without replacement, non-unit-weight
  starts (C13); zero / negative extents, cancelling out-of-range entries, wrong-length regions, typed components, and
  operands of an unsupported TYPE for every binary operation (C19); `np.random.uniform` arguments (C20); `spmatrix` and
  Tucker tensors with scipy.sparse factor matrices (C01 / C14).
* **Genuine defects found on the way** by the new input classes and repaired in /repo: {S['defects']}.

Re-run of all first-pass survivors against the strengthened checks: {S['rerun_killed']} of {S['rerun_total']} now killed; of the
{S['violating']} triaged as violating, {S['violating_killed']} are killed{S['violating_left_text']}. The remaining survivors are the
equivalent / no-property classes (every first-pass survivor was triaged). The numbers are for the QUICK size with the drift
detector off; the mutation run costs about three hours on twelve workers and is not part of any registered check.
""")
text = open('/verif/DESIGN.md').read()
new = "\n".join(body)
if '## 12. Seeded changes' in text:
    text = text[:text.index('## 12. Seeded changes')] + new
else:
    text = text.rstrip('\n') + "\n\n---------------------------------------------------------------------------\n\n" + new
open('/verif/DESIGN.md', 'w').write(text)
print(n, "rows;", len(missed), "missed-first")
