#!/venv/bin/python
"""tools/harmless_matrix.py [ids...] : apply each kept HARMLESS refactoring (/verif/harmless/<id>) in a scratch worktree of /repo HEAD, run
the check of the property it is about (quick tier, VERIF_SEED 0..1) and record the exit codes in /verif/harmless/MATRIX.json: every
run must exit 0 without a VIOLATION line (an ANCHOR-LOST advisory line is allowed)."""
import json, os, subprocess, sys, glob
run = lambda *a, **k: subprocess.run(*a, capture_output=True, text=True, **k)
ids = sys.argv[1:] or sorted(os.path.basename(os.path.dirname(p)) for p in glob.glob('/verif/harmless/*/meta.json'))
res = {}
for k in ids:
    meta = json.load(open(f'/verif/harmless/{k}/meta.json'))
    prop = meta['keeps_property']
    if meta.get('obsolete'):
        print(k, prop, 'obsolete'); continue
    wt = f'/tmp/harmmatrix/{k}'
    os.makedirs('/tmp/harmmatrix', exist_ok=True)
    run(['git', '-C', '/repo', 'worktree', 'remove', '--force', wt])
    assert run(['git', '-C', '/repo', 'worktree', 'add', '--detach', wt, 'HEAD']).returncode == 0
    a = run(['git', '-C', wt, 'apply', f'/verif/harmless/{k}/patch.diff'])
    row = {'property': prop, 'applies': a.returncode == 0, 'seeds': {}}
    if a.returncode == 0:
        for s in (0, 1):
            env = dict(os.environ, PYTTB_REPO=wt, PYTHONPATH=wt, VERIF_NO_DRIFT='1', VERIF_SEED=str(s), VERIF_EVIDENCE_DIR='/tmp/seed_evidence')
            r = run(['./check', prop, '--tier', 'quick'], cwd='/verif', env=env)
            viol = [l for l in r.stdout.split('\n') if l.startswith('VIOLATION')]
            row['seeds'][s] = {'rc': r.returncode, 'violation_lines': len(viol),
                               'no_failing_input': any('no-failing-input-found' in l for l in viol)}
    res[k] = row
    print(k, prop, 'applies' if row['applies'] else 'DOES NOT APPLY',
          ' '.join(f"s{s}:{'V' if v['violation_lines'] else '-'}{'(nfi)' if v['no_failing_input'] else ''}" for s, v in row['seeds'].items()), flush=True)
    run(['git', '-C', '/repo', 'worktree', 'remove', '--force', wt])
run(['git', '-C', '/repo', 'worktree', 'prune'])
old = {}
if os.path.exists('/verif/harmless/MATRIX.json'):
    old = json.load(open('/verif/harmless/MATRIX.json'))
old.update(res)
json.dump(old, open('/verif/harmless/MATRIX.json', 'w'), indent=1, sort_keys=True)
# restore evidence files of the unchanged tree for the touched properties is the caller's job (re-run the checks)
# the generated Lean files describe the last tree a check ran on: bring them back to /repo's
subprocess.run(["/venv/bin/python", "-c", "import sys; sys.path.insert(0, '/verif'); from harness import translate; [translate.run(p, {}) for p in ('C09',)]"],
               env=dict(os.environ, PYTHONPATH="/repo", PYTTB_REPO="/repo"), cwd="/verif")
