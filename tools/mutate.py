#!/venv/bin/python
"""tools/mutate.py : systematic small mutations of the pyttb source, as a measurement of what the checks detect.

  mutate.py gen  <out.json> [files...]        enumerate mutants (AST-located, text-level edits; function bodies only)
  mutate.py run  <mutants.json> <results.jsonl> --workers N [--limit K] [--tier quick]
        every worker owns a scratch git worktree of /repo HEAD (/tmp/mut/w<i>/repo) and a private copy of /verif
        (/tmp/mut/w<i>/verif, with its own lean/.lake); for each mutant: write the mutated file, run the 208 doctests
        (a mutant that fails them is not a realistic breakage: recorded as `tests`), then the quick checks of the
        properties anchored in that file (drift detector off, i.e. plain quick size) until one prints a VIOLATION line
        (`killed`, with the property and whether a failing input was found) or all stay quiet (`survived`).
  mutate.py report <results.jsonl>              summary table; the survivors are candidates for triage
        (equivalent mutant / outside every property / a miss of the checks)

Nothing here is part of a registered check; scratch lives under /tmp/mut and is removed by `mutate.py clean`.
"""
from __future__ import annotations

import ast
import json
import os
import random
import shutil
import subprocess
import sys
import time
from multiprocessing import Process, Queue
from pathlib import Path

REPO = Path("/repo")
VERIF = Path("/verif")
SKIP_FUNCS = {"__repr__", "__str__", "_matlab_str", "viz", "_repr_html_", "__deepcopy__", "order", "_matches_order"}
PROPS = {json.loads(l)["id"]: json.loads(l)["anchors"]["files"] for l in (VERIF / "properties.jsonl").read_text().splitlines() if l.strip()}
# files a property's check exercises although properties.jsonl does not list them under that property
EXTRA_PROPS = {"C05": ["pyttb/khatrirao.py", "pyttb/export_data.py", "pyttb/import_data.py", "pyttb/gcp/optimizers.py", "pyttb/gcp/samplers.py"],
               "C02": ["pyttb/khatrirao.py"], "C18": ["pyttb/gcp/fg_setup.py"], "C13": ["pyttb/gcp/fg_setup.py"], "C19": ["pyttb/gcp/fg_setup.py", "pyttb/export_data.py"]}
for _p, _fs in EXTRA_PROPS.items():
    PROPS[_p] = list(PROPS[_p]) + [f for f in _fs if f not in PROPS[_p]]
# cheap checks first
COST = {"C16": 3, "C07": 4, "C12": 5, "C20": 5, "C19": 5, "C10": 7, "C14": 7, "C17": 8, "C02": 8, "C04": 5, "C08": 10, "C13": 10,
        "C01": 13, "C03": 15, "C15": 15, "C05": 10, "C09": 18, "C18": 22, "C06": 25, "C11": 25}


HINTS = [
    (("permute", "reshape", "squeeze"), ["C07"]),
    (("__setitem__", "__getitem__", "_set_", "subdims", "tt_renumber", "tt_irenumber", "tt_subsubsref"), ["C04", "C06"]),
    (("ttv", "ttm", "mttkrp", "innerprod", "norm", "contract", "collapse", "scale", "ttt", "ttsv", "get_mttkrp_factors", "reconstruct", "mask"), ["C02"]),
    (("__add__", "__sub__", "__mul__", "__truediv__", "_compare", "__eq__", "__ne__", "__le__", "__lt__", "__ge__", "__gt__", "logical", "elemfun", "ones", "__neg__", "__r"), ["C03", "C06"]),
    (("to_tenmat", "to_sptensor", "full", "to_sptenmat", "find", "double", "to_tensor", "gather_wrap_dims", "tenmat.__init__", "sptenmat.__init__", "from_array"), ["C01", "C06"]),
    (("normalize", "arrange", "fixsigns", "redistribute", "extract", "tovec", "from_vector", "score", "update", "tolist", "ktensor.__"), ["C08"]),
    (("nvecs",), ["C14"]),
    (("symmetrize", "issymmetric"), ["C15"]),
    (("from_function", "from_aggregator", "tenones", "tenzeros", "tenrand", "tendiag", "teneye", "sptenrand", "sptendiag"), ["C20"]),
    (("tt_", "khatrirao", "parse_"), ["C17", "C19"]),
    (("cp_als",), ["C09", "C18"]), (("hosvd", "tucker_als"), ["C10", "C18"]), (("cp_apr", "tt_cp_apr", "calculate_", "tt_loglikelihood", "tt_linesearch", "get_search", "tt_calcpi", "get_hessian", "calc_"), ["C11", "C18"]),
    (("import_", "export_"), ["C16"]),
]


def props_for(file, func="", op=""):
    ps = [p for p, fs in PROPS.items() if file in fs]
    first = []
    if op in ("copy-removed",):
        first.append("C05")
    for keys, hp in HINTS:
        if any(k in func for k in keys):
            first += hp
    first = [p for i, p in enumerate(first) if p in ps and p not in first[:i]]
    rest = sorted([p for p in ps if p not in first], key=lambda p: COST.get(p, 20))
    return first + rest


# ----------------------------------------------------------------------------------------------------------------
# mutant generation
# ----------------------------------------------------------------------------------------------------------------
CMP = {ast.Lt: "<=", ast.LtE: "<", ast.Gt: ">=", ast.GtE: ">", ast.Eq: "!=", ast.NotEq: "=="}
BIN = {ast.Add: "-", ast.Sub: "+", ast.Mult: "+", ast.FloorDiv: "*", ast.Mod: "//"}


class Gen(ast.NodeVisitor):
    def __init__(self, src, file):
        self.src, self.file = src, file
        self.lines = src.split("\n")
        self.out = []
        self.func = []
        self.skip_depth = 0

    def seg(self, n):
        return ast.get_source_segment(self.src, n)

    def add(self, node, new, op, span=None):
        if not self.func:
            return
        l0, c0, l1, c1 = span or (node.lineno, node.col_offset, node.end_lineno, node.end_col_offset)
        if l0 != l1:
            return  # one-line edits only
        old = self.lines[l0 - 1][c0:c1]
        if old == new:
            return
        self.out.append({"file": self.file, "func": ".".join(self.func), "line": l0, "col": c0, "end": c1, "old": old, "new": new, "op": op})

    def visit_ClassDef(self, node):
        self.func.append(node.name)
        self.generic_visit(node)
        self.func.pop()

    def visit_FunctionDef(self, node):
        if node.name in SKIP_FUNCS:
            return
        self.func.append(node.name)
        body = node.body
        if body and isinstance(body[0], ast.Expr) and isinstance(body[0].value, ast.Constant) and isinstance(body[0].value.value, str):
            body = body[1:]
        for st in body:
            self.visit(st)
        self.func.pop()

    visit_AsyncFunctionDef = visit_FunctionDef

    def visit_Assert(self, node):
        self.visit(node.test)  # not the message

    def visit_Raise(self, node):
        return

    def visit_Expr(self, node):
        # skip logging / printing / warnings
        v = node.value
        if isinstance(v, ast.Call):
            name = self.seg(v.func) or ""
            if name.split(".")[0] in ("print", "logging", "warnings", "logger") or name.startswith("logging."):
                return
        self.generic_visit(node)

    def visit_Compare(self, node):
        if len(node.ops) == 1 and type(node.ops[0]) in CMP:
            left_end = (node.left.end_lineno, node.left.end_col_offset)
            right = node.comparators[0]
            if left_end[0] == right.lineno:
                between = self.lines[left_end[0] - 1][left_end[1]:right.col_offset]
                sym = {ast.Lt: "<", ast.LtE: "<=", ast.Gt: ">", ast.GtE: ">=", ast.Eq: "==", ast.NotEq: "!="}[type(node.ops[0])]
                i = between.find(sym)
                if i >= 0:
                    c0 = left_end[1] + i
                    self.add(node, CMP[type(node.ops[0])], "cmp", (left_end[0], c0, left_end[0], c0 + len(sym)))
        self.generic_visit(node)

    def visit_BinOp(self, node):
        if type(node.op) in BIN and not isinstance(node.left, ast.Constant) or (type(node.op) in BIN and not isinstance(node.left.value, str)):
            le = (node.left.end_lineno, node.left.end_col_offset)
            if le[0] == node.right.lineno:
                between = self.lines[le[0] - 1][le[1]:node.right.col_offset]
                sym = {ast.Add: "+", ast.Sub: "-", ast.Mult: "*", ast.FloorDiv: "//", ast.Mod: "%"}[type(node.op)]
                i = between.find(sym)
                if i >= 0 and "(" not in between and ")" not in between:
                    c0 = le[1] + i
                    self.add(node, BIN[type(node.op)], "binop", (le[0], c0, le[0], c0 + len(sym)))
        self.generic_visit(node)

    def visit_BoolOp(self, node):
        if len(node.values) == 2:
            a, b = node.values
            if a.end_lineno == b.lineno:
                between = self.lines[a.end_lineno - 1][a.end_col_offset:b.col_offset]
                sym = "and" if isinstance(node.op, ast.And) else "or"
                i = between.find(sym)
                if i >= 0:
                    c0 = a.end_col_offset + i
                    self.add(node, "or" if sym == "and" else "and", "boolop", (a.end_lineno, c0, a.end_lineno, c0 + len(sym)))
        self.generic_visit(node)

    def visit_UnaryOp(self, node):
        if isinstance(node.op, ast.Not):
            s = self.seg(node.operand)
            if s:
                self.add(node, f"({s})", "not-removed")
        elif isinstance(node.op, ast.USub) and not isinstance(node.operand, ast.Constant):
            s = self.seg(node.operand)
            if s:
                self.add(node, f"({s})", "neg-removed")
        self.generic_visit(node)

    def visit_Constant(self, node):
        v = node.value
        if isinstance(v, bool):
            self.add(node, "False" if v else "True", "bool")
        elif isinstance(v, int) and 0 <= v <= 3:
            self.add(node, str(v + 1), "int+1")
            if v >= 1:
                self.add(node, str(v - 1), "int-1")
        elif isinstance(v, str) and v in ("F", "C"):
            self.add(node, '"C"' if v == "F" else '"F"', "order")
        elif isinstance(v, str) and v in ("fc", "bc"):
            self.add(node, '"bc"' if v == "fc" else '"fc"', "cyclic")

    def visit_Call(self, node):
        name = self.seg(node.func) or ""
        # x.copy() -> x ; np.copy(x) kept
        if isinstance(node.func, ast.Attribute) and node.func.attr == "copy" and not node.args and not node.keywords:
            s = self.seg(node.func.value)
            if s:
                self.add(node, s, "copy-removed")
        # swap the two positional arguments of a binary call
        if len(node.args) == 2 and not node.keywords and name.split(".")[-1] in (
                "dot", "matmul", "outer", "kron", "tt_intersect_rows", "tt_setdiff_rows", "tt_union_rows", "tt_ismember_rows",
                "setdiff1d", "isin", "tt_sub2ind", "tt_ind2sub", "vstack", "hstack", "minimum", "maximum", "divide", "subtract"):
            a, b = self.seg(node.args[0]), self.seg(node.args[1])
            if a and b and a != b and node.args[0].lineno == node.args[1].end_lineno:
                self.add(node, f"{b}, {a}", "argswap", (node.args[0].lineno, node.args[0].col_offset, node.args[1].end_lineno, node.args[1].end_col_offset))
        # .T / transpose() removal
        if isinstance(node.func, ast.Attribute) and node.func.attr == "transpose" and not node.args and not node.keywords:
            s = self.seg(node.func.value)
            if s:
                self.add(node, s, "transpose-removed")
        # argsort <-> identity is too crude; axis flips
        for kw in node.keywords:
            if kw.arg == "axis" and isinstance(kw.value, ast.Constant) and kw.value.value in (0, 1):
                self.add(kw.value, str(1 - kw.value.value), "axis")
        self.generic_visit(node)

    def visit_Attribute(self, node):
        if node.attr == "T":
            s = self.seg(node.value)
            if s:
                self.add(node, s, "T-removed")
        self.generic_visit(node)

    def visit_Subscript(self, node):
        sl = node.slice
        if isinstance(sl, ast.Slice):
            if sl.lower is not None and not isinstance(sl.lower, ast.Constant):
                s = self.seg(sl.lower)
                if s:
                    self.add(sl.lower, f"{s} + 1", "slice-lo+1")
            if sl.upper is not None and not isinstance(sl.upper, ast.Constant):
                s = self.seg(sl.upper)
                if s:
                    self.add(sl.upper, f"{s} - 1", "slice-hi-1")
        self.generic_visit(node)

    def visit_Return(self, node):
        self.generic_visit(node)


def gen(files, per_func=10, seed=0):
    rng = random.Random(seed)
    out = []
    for f in files:
        src = (REPO / f).read_text()
        g = Gen(src, f)
        g.visit(ast.parse(src))
        byfunc = {}
        for m in g.out:
            byfunc.setdefault(m["func"], []).append(m)
        for fn, ms in sorted(byfunc.items()):
            # keep a diverse sample per function: round-robin over operators
            byop = {}
            for m in ms:
                byop.setdefault(m["op"], []).append(m)
            for v in byop.values():
                rng.shuffle(v)
            pick = []
            cap = min(40, max(per_func, len(ms) // 4))  # the algorithm drivers are single large functions
            while len(pick) < cap and any(byop.values()):
                for op in sorted(byop):
                    if byop[op] and len(pick) < cap:
                        pick.append(byop[op].pop())
            out += pick
    for i, m in enumerate(out):
        m["id"] = f"M{i:04d}"
    return out


# ----------------------------------------------------------------------------------------------------------------
# running
# ----------------------------------------------------------------------------------------------------------------
def sh(cmd, **kw):
    return subprocess.run(cmd, capture_output=True, text=True, **kw)


def setup_worker(i):
    base = Path(f"/tmp/mut/w{i}")
    repo, verif = base / "repo", base / "verif"
    base.mkdir(parents=True, exist_ok=True)
    if not repo.exists():
        sh(["git", "-C", str(REPO), "worktree", "add", "--detach", str(repo), "HEAD"])
    if not verif.exists():
        sh(["rsync", "-a", "--exclude", ".git", "--exclude", "replays", "--exclude", ".work", "--exclude", "seeded", "--exclude", "harmless",
            str(VERIF) + "/", str(verif) + "/"])
    return repo, verif


def apply_mutant(repo, m):
    p = repo / m["file"]
    orig = (REPO / m["file"]).read_text()
    lines = orig.split("\n")
    idx = m["line"] - 1
    ln = lines[idx] if idx < len(lines) else ""
    if ln[m["col"]:m["end"]] != m["old"] or (m.get("linetext") is not None and ln != m["linetext"]):
        # the file changed since the mutants were enumerated (fix commits): find the same source line again
        want = m.get("linetext")
        if want is None:
            gen = os.environ.get("MUTANTS_GEN_COMMIT", "83ce2cc")
            old_src = sh(["git", "-C", str(REPO), "show", f"{gen}:{m['file']}"]).stdout.split("\n")
            want = old_src[m["line"] - 1] if m["line"] - 1 < len(old_src) else None
        hits = [i for i, l in enumerate(lines) if l == want]
        assert want is not None and len(hits) == 1, ("cannot relocate", m["id"], len(hits))
        idx, ln = hits[0], lines[hits[0]]
        assert ln[m["col"]:m["end"]] == m["old"], (m, ln)
    lines[idx] = ln[:m["col"]] + m["new"] + ln[m["end"]:]
    p.write_text("\n".join(lines))
    return orig


def run_one(i, m, repo, verif, tier):
    res = {"id": m["id"], **{k: m[k] for k in ("file", "func", "line", "old", "new", "op")}}
    orig = apply_mutant(repo, m)
    try:
        env = dict(os.environ, PYTHONPATH=str(repo), PYTTB_REPO=str(repo), PYTHONDONTWRITEBYTECODE="1")
        try:
            t = sh(["/venv/bin/python", "-m", "pytest", "-q", "-x", "-p", "no:cacheprovider"], cwd=repo, env=env, timeout=300)
            last = (t.stdout.strip().split("\n") or [""])[-1]
        except subprocess.TimeoutExpired:
            last = "timeout"
        if "208 passed" not in last:
            res["status"] = "tests"
            return res
        env.update(VERIF_NO_DRIFT="1", VERIF_SEED="0", VERIF_EVIDENCE_DIR=f"/tmp/mut/w{i}/evidence")
        res["ran"] = []
        for p in props_for(m["file"], m.get("func", ""), m.get("op", "")):
            t0 = time.time()
            try:
                r = sh(["./check", p, "--tier", tier], cwd=verif, env=env, timeout=900)
                out = r.stdout
                rc = r.returncode
            except subprocess.TimeoutExpired:
                out, rc = "", 124
            viol = [l for l in out.split("\n") if l.startswith("VIOLATION")]
            res["ran"].append({"p": p, "rc": rc, "s": round(time.time() - t0, 1)})
            if viol:
                res["status"] = "killed"
                res["by"] = p
                res["nfi"] = all("no-failing-input-found" in l for l in viol)
                return res
            if rc not in (0, 1):
                res.setdefault("errors", []).append({"p": p, "rc": rc, "tail": (r.stdout + r.stderr)[-300:] if rc != 124 else "timeout"})
        res["status"] = "survived"
        return res
    finally:
        (repo / m["file"]).write_text(orig)


def worker(i, q, outq, tier):
    repo, verif = setup_worker(i)
    while True:
        m = q.get()
        if m is None:
            break
        try:
            outq.put(run_one(i, m, repo, verif, tier))
        except Exception as e:  # noqa: BLE001
            outq.put({"id": m["id"], "status": "error", "err": f"{type(e).__name__}: {e}"})
    outq.put(None)


def run(mutants_file, results_file, workers, limit, tier):
    ms = json.load(open(mutants_file))
    done = set()
    if os.path.exists(results_file):
        done = {json.loads(l)["id"] for l in open(results_file) if l.strip()}
    ms = [m for m in ms if m["id"] not in done]
    if limit:
        random.Random(1).shuffle(ms)
        ms = ms[:limit]
    q, outq = Queue(), Queue()
    for m in ms:
        q.put(m)
    for _ in range(workers):
        q.put(None)
    procs = [Process(target=worker, args=(i, q, outq, tier)) for i in range(workers)]
    for p in procs:
        p.start()
    fin, n = 0, 0
    with open(results_file, "a") as f:
        while fin < workers:
            r = outq.get()
            if r is None:
                fin += 1
                continue
            n += 1
            f.write(json.dumps(r) + "\n")
            f.flush()
            if n % 10 == 0:
                print(f"{n}/{len(ms)}", flush=True)
    for p in procs:
        p.join()


def report(results_file):
    rs = [json.loads(l) for l in open(results_file) if l.strip()]
    from collections import Counter
    c = Counter(r["status"] for r in rs)
    print(dict(c))
    real = [r for r in rs if r["status"] in ("killed", "survived")]
    if real:
        k = sum(r["status"] == "killed" for r in real)
        print(f"mutants that keep the 208 doctests green: {len(real)}; killed by a check: {k} ({100 * k / len(real):.1f}%), "
              f"of which without a failing input: {sum(1 for r in real if r.get('nfi'))}")
    byfile = {}
    for r in real:
        byfile.setdefault(r["file"], Counter())[r["status"]] += 1
    for f, cc in sorted(byfile.items()):
        print(f"  {f:32s} killed {cc['killed']:4d}  survived {cc['survived']:4d}")
    print("survivors:")
    for r in rs:
        if r["status"] == "survived":
            print(f"  {r['id']} {r['file']}:{r['line']} {r['func']} [{r['op']}] `{r['old']}` -> `{r['new']}`")


if __name__ == "__main__":
    cmd = sys.argv[1]
    if cmd == "gen":
        out = sys.argv[2]
        files = sys.argv[3:] or sorted({f for fs in PROPS.values() for f in fs if f.endswith(".py")})
        ms = gen(files)
        json.dump(ms, open(out, "w"), indent=0)
        from collections import Counter
        print(len(ms), "mutants;", dict(Counter(m["op"] for m in ms)))
    elif cmd == "run":
        a = sys.argv[2:]
        workers = int(a[a.index("--workers") + 1]) if "--workers" in a else 8
        limit = int(a[a.index("--limit") + 1]) if "--limit" in a else 0
        tier = a[a.index("--tier") + 1] if "--tier" in a else "quick"
        run(a[0], a[1], workers, limit, tier)
    elif cmd == "report":
        report(sys.argv[2])
    elif cmd == "clean":
        for d in sorted(Path("/tmp/mut").glob("w*")):
            sh(["git", "-C", str(REPO), "worktree", "remove", "--force", str(d / "repo")])
            shutil.rmtree(d, ignore_errors=True)
        sh(["git", "-C", str(REPO), "worktree", "prune"])
