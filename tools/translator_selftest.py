#!/venv/bin/python
"""tools/translator_selftest.py [-v] [--props C09,C10,C11,C18] [ID ...]

Self-test of the three formula translators (harness/translate/gen_cpals.py, gen_tucker.py, gen_cpapr.py) against the
kept changes of /repo:

  harmless/<P>h/patch.diff   refactorings that keep the property: every anchor must be READ AS PINNED
  seeded/<P>?/patch.diff     harmful changes: for each, which anchors are read differently or lost
                             (a harmful change must never be "repaired" by reading it as the pinned formula; a patch
                             that does not touch an anchored statement leaves every anchor pinned and is caught by the
                             correspondence families, not by the translator)

Each patch is applied to a scratch worktree of /repo (created under /tmp, removed at the end), only the translators are
run (`build()` of each module, nothing is written to lean/PyttbModel/Generated), and every generated definition is
compared with the pinned one (harness/translate/pinned/*.lean) up to comments and white space:

  .   read as pinned         D   read, definition text differs         L   lost (not emitted; the check would use the
                                                                           pinned definition and tie it by
                                                                           correspondence only)
In addition nine further harmless rewrites (VARIANTS: renamed loop variable and locals, conditional expressions, helpers
with early returns, temporaries, swapped branches) must be read as pinned, and a list of PROBES (a kept harmless refactoring
+ one harmful edit inside the refactored code) is run: the edited definition must come out as D or L.

Exit status 0 iff the unchanged tree and all harmless patches read every anchor as pinned and no probe is read as pinned.
"""
from __future__ import annotations

import json
import os
import re  # noqa: F401  (used by the variants)
import shutil
import subprocess
import sys
import tempfile
from pathlib import Path

ROOT = Path(__file__).resolve().parent.parent
sys.path.insert(0, str(ROOT))
REPO = Path(os.environ.get("PYTTB_REPO_ORIGIN", "/repo"))
PY = "/venv/bin/python"
MODS = {"gen_cpals": "CpAlsFormulas.lean", "gen_tucker": "TuckerFormulas.lean", "gen_cpapr": "CpAprFormulas.lean"}

#: sensitivity probes: a kept HARMLESS refactoring plus one harmful edit of the refactored code (inside the new helper,
#: at its call site, on the renamed local).  (id, base patch, file, old text, new text, definitions that must NOT be read
#: as pinned).  They show that following the data flow does not "repair" a harmful change.
PROBES = [
    ("C09h+fit", "C09h", "pyttb/cp_als.py", "fit = 1 - (normresidual / normX)  # fraction explained by model\n    return",
     "fit = 1 - (normresidual / normM)  # fraction explained by model\n    return", ["cpals.fit"]),
    ("C09h+args", "C09h", "pyttb/cp_als.py", "_fit_and_residual(normX, M.norm(), iprod)",
     "_fit_and_residual(normX, iprod, M.norm())", ["cpals.normresidual"]),
    ("C09h+sweep", "C09h", "pyttb/cp_als.py", "_column_scales(Unew, iteration == 0)",
     "_column_scales(Unew, iteration == 1)", ["cpals.firstIteration"]),
    ("C09h+max", "C09h", "pyttb/cp_als.py", "return np.maximum(np.max(np.abs(Unew), 0), 1)",
     "return np.maximum(np.max(np.abs(Unew), 0), 2)", ["cpals.colWeightLater"]),
    ("C18h+stop", "C18h", "pyttb/cp_als.py", "converged = bool((iteration > 0) and (fitchange < stoptol))",
     "converged = bool((iteration > 1) and (fitchange < stoptol))", ["cpals.stopTest"]),
    ("C18h+zero", "C18h", "pyttb/cp_als.py", "return normresidual, normresidual\n", "return normresidual, 1 - normresidual\n",
     ["cpals.fitZero"]),
    ("C18h+core", "C18h", "pyttb/tucker_als.py", "np.sqrt(abs(normX**2 - normcore**2))",
     "np.sqrt(abs(normX**2 + normcore**2))", ["tucker.normresidual"]),
    ("C10h+off", "C10h", "pyttb/hosvd.py", "chosen_rank = np.where(tail_sums > eigsumthresh)[0][-1] + 1",
     "chosen_rank = np.where(tail_sums > eigsumthresh)[0][-1] + 2", ["tucker.cutOffset"]),
    ("C10h+cmp", "C10h", "pyttb/hosvd.py", "np.where(tail_sums > eigsumthresh)", "np.where(tail_sums >= eigsumthresh)",
     ["tucker.cutCond"]),
    ("C10h+lead", "C10h", "pyttb/hosvd.py", "leading = descending[0 : ranks[k]]", "leading = descending[0 : ranks[k] + 1]",
     ["tucker.sliceBound"]),
    ("C10h+asc", "C10h", "pyttb/hosvd.py", "descending = np.argsort(-eigvals, kind=\"quicksort\")",
     "descending = np.argsort(eigvals, kind=\"quicksort\")", ["tucker.sliceBound"]),
    ("C11h+fill", "C11h", "pyttb/cp_apr.py", "model.factor_matrices[n][zero_rows, 0] = 1e-8",
     "model.factor_matrices[n][zero_rows, 0] = 1e-6", ["cpapr.zeroRowFill"]),
    ("C11h+guard", "C11h", "pyttb/cp_apr.py", "if not rejected and f_new <= (f_old + suff_decr * gDotd):",
     "if rejected or f_new <= (f_old + suff_decr * gDotd):", ["cpapr.armijoBound"]),
    ("C11h+bound", "C11h", "pyttb/cp_apr.py", "if not rejected and f_new <= (f_old + suff_decr * gDotd):",
     "if not rejected and f_new <= (f_old + gDotd):", ["cpapr.armijoBound"]),
]

# ----------------------------------------------------------------------------------------------------------------------
# further harmless rewrites (not kept patches; applied to the unchanged tree): renamed loop variable and locals,
# conditional expressions, helpers with early returns, temporaries, `!=` with swapped branches, `continue`.  Every anchor
# must be read as pinned.  (Each was run through the 208 doctests of /repo when it was written.)
# ----------------------------------------------------------------------------------------------------------------------
def sub1(s, old, new, count=1):
    assert s.count(old) == count, (old, s.count(old))
    return s.replace(old, new)

def V1(t):  # cp_als: renamed loop variable and locals
    p = t / "pyttb/cp_als.py"; s = p.read_text()
    head, body = s.split("    # Extract number of dimensions and norm of tensor", 1)
    body = re.sub(r"\biteration\b", "it", body)
    body = re.sub(r"\bfitold\b", "fit_prev", body)
    body = re.sub(r"\bfitchange\b", "delta", body)
    body = re.sub(r"(?<![\"\w])normresidual\b(?!\")", "resid", body)
    body = re.sub(r"\bnormX\b", "norm_data", body)
    body = re.sub(r"\bweights\b", "lam", body)
    p.write_text(head + "    # Extract number of dimensions and norm of tensor" + body)

def V2(t):  # cp_als: conditional expressions instead of if/else
    p = t / "pyttb/cp_als.py"; s = p.read_text()
    s = sub1(s, """            if iteration == 0:
                weights = np.sqrt(sum(Unew**2, 0))  # 2-norm
            else:
                weights = np.maximum(np.max(np.abs(Unew), 0), 1)  # max-norm
""", """            weights = (
                np.sqrt(sum(Unew**2, 0))
                if iteration == 0
                else np.maximum(np.max(np.abs(Unew), 0), 1)
            )
""")
    s = sub1(s, """        if normX == 0:
            normresidual = M.norm() ** 2 - 2 * iprod
            fit = normresidual
        else:
            # the following input to np.sqrt can be negative due to rounding and
            # truncation errors, so np.abs is used
            normresidual = np.sqrt(np.abs(normX**2 + M.norm() ** 2 - 2 * iprod))
            fit = 1 - (normresidual / normX)  # fraction explained by model
""", """        normM = M.norm()
        normresidual = (
            normM**2 - 2 * iprod
            if normX == 0
            else np.sqrt(np.abs(normX**2 + normM**2 - 2 * iprod))
        )
        fit = normresidual if normX == 0 else 1 - (normresidual / normX)
""")
    s = sub1(s, """        if (iteration > 0) and (fitchange < stoptol):
            flag = 0
        else:
            flag = 1

        if (printitn > 0) and ((divmod(iteration, printitn)[1] == 0) or (flag == 0)):
            print(f" Iter {iteration}: f = {fit:e} f-delta = {fitchange:7.1e}")

        # Check for convergence
        if flag == 0:
            break
""", """        done = (iteration > 0) and (fitchange < stoptol)
        if (printitn > 0) and ((divmod(iteration, printitn)[1] == 0) or done):
            print(f" Iter {iteration}: f = {fit:e} f-delta = {fitchange:7.1e}")
        if done:
            break
""")
    p.write_text(s)

def V3(t):  # tucker: helper + boolean
    p = t / "pyttb/tucker_als.py"; s = p.read_text()
    s = sub1(s, """        normresidual = np.sqrt(abs(normX**2 - core.norm() ** 2))
        fit = 1 - (normresidual / normX)  # fraction explained by model
        fitchange = abs(fitold - fit)
""", """        normresidual, fit = _residual_and_fit(normX, core)
        fitchange = abs(fitold - fit)
""")
    s = sub1(s, """        if fitchange < stoptol:
            break
""", """        converged = bool(fitchange < stoptol)
        if converged:
            break
""")
    s = sub1(s, "\ndef tucker_als(", '''
def _residual_and_fit(norm_data, core_tensor):
    """Residual norm and fit of the current Tucker approximation."""
    resid = np.sqrt(abs(norm_data**2 - core_tensor.norm() ** 2))
    return resid, 1 - (resid / norm_data)


def tucker_als(''')
    p.write_text(s)

def V4(t):  # hosvd: threshold helper, cumulative sums outside the if, temporary for the bound, conditional expression
    p = t / "pyttb/hosvd.py"; s = p.read_text()
    s = sub1(s, "    eigsumthresh = ((tol**2) * normxsqr) / d\n", "    eigsumthresh = _eigsum_threshold(tol, normxsqr, d)\n")
    s = sub1(s, """        if ranks[k] == 0:
            eigsum = np.cumsum(eigvec[::-1])
            eigsum = eigsum[::-1]
            ranks[k] = np.where(eigsum > eigsumthresh)[0][-1] + 1
""", """        eigsum = np.cumsum(eigvec[::-1])[::-1]
        if ranks[k] == 0:
            last_above = np.where(eigsum > eigsumthresh)[0][-1]
            ranks[k] = last_above + 1
""")
    s = sub1(s, "        factor_matrices[k] = V[:, pi[0 : ranks[k]]]\n", "        n_keep = ranks[k]\n        factor_matrices[k] = V[:, pi[:n_keep]]\n")
    s = sub1(s, "\ndef hosvd(", '''
def _eigsum_threshold(tol, normxsqr, ndims):
    """Largest eigenvalue tail that may be discarded per mode."""
    return ((tol**2) * normxsqr) / ndims


def hosvd(''')
    p.write_text(s)

def V5(t):  # cp_apr: temporaries in the kkt tests and the acceptance test, renamed locals in the line search
    p = t / "pyttb/cp_apr.py"; s = p.read_text()
    s = sub1(s, """            if f_new <= (f_old + suff_decr * gDotd):
                break
""", """            accept = f_new <= (f_old + suff_decr * gDotd)
            if accept:
                break
""")
    s = sub1(s, """        model_new = model_old + stepSize * direction
        model_new *= model_new > 0
""", """        trial = model_old + stepSize * direction
        trial *= trial > 0
        model_new = trial
""")
    s = sub1(s, """                    kkt_violation = np.max(np.abs(np.minimum(m_row, gradM)))
""", """                    complementarity = np.abs(np.minimum(m_row, gradM))
                    kkt_violation = np.max(complementarity)
""")
    s = sub1(s, """                kktModeViolations[n] = np.max(
                    np.abs(
                        vectorize_for_mu(np.minimum(M.factor_matrices[n], 1 - Phi[n]))
                    )
                )
""", """                phi_n = Phi[n]
                kktModeViolations[n] = np.max(
                    np.abs(vectorize_for_mu(np.minimum(M.factor_matrices[n], 1 - phi_n)))
                )
""")
    s = sub1(s, "                M.factor_matrices[n] *= Phi[n]\n", "                M.factor_matrices[n] *= phi_n\n")
    p.write_text(s)

def V6(t):  # cp_als: recomputation moved into a helper, comprehension for the Gram slices, early exit form
    p = t / "pyttb/cp_als.py"; s = p.read_text()
    s = sub1(s, """        if normX == 0:
            normresidual = M.norm() ** 2 - 2 * iprod
            fit = normresidual
        else:
            # the following input to np.sqrt can be negative due to rounding and
            # truncation errors, so np.abs is used
            normresidual = np.sqrt(np.abs(normX**2 + M.norm() ** 2 - 2 * iprod))
            fit = 1 - (normresidual / normX)  # fraction explained by model
""", """        normresidual = _residual(normX, M.norm(), iprod)
        fit = _fit(normX, normresidual)
""")
    s = sub1(s, """        if normX == 0:
            normresidual = M.norm() ** 2 - 2 * input_tensor.innerprod(M)
            fit = normresidual
        else:
            normresidual = np.sqrt(
                np.abs(normX**2 + M.norm() ** 2 - 2 * input_tensor.innerprod(M))
            )
            fit = 1 - (normresidual / normX)  # fraction explained by model
""", """        normresidual = _residual(normX, M.norm(), input_tensor.innerprod(M))
        fit = _fit(normX, normresidual)
""")
    s = sub1(s, "\ndef cp_als(", '''
def _residual(normX, normM, iprod):
    if normX == 0:
        return normM**2 - 2 * iprod
    return np.sqrt(np.abs(normX**2 + normM**2 - 2 * iprod))


def _fit(normX, normresidual):
    return normresidual if normX == 0 else 1 - (normresidual / normX)


def cp_als(''')
    p.write_text(s)



def V7(t):  # hosvd: named test, temporaries
    p = t / "pyttb/hosvd.py"; s = p.read_text()
    s = sub1(s, """        if ranks[k] == 0:
            eigsum = np.cumsum(eigvec[::-1])
            eigsum = eigsum[::-1]
            ranks[k] = np.where(eigsum > eigsumthresh)[0][-1] + 1
""", """        choose_rank = ranks[k] == 0
        if choose_rank:
            reversed_vals = eigvec[::-1]
            eigsum = np.cumsum(reversed_vals)[::-1]
            above = eigsum > eigsumthresh
            ranks[k] = np.where(above)[0][-1] + 1
""")
    s = sub1(s, """    if sequential:
        G = Y
    else:
        G = Y.ttm(factor_matrices, transpose=True)

    result = ttb.ttensor(G, factor_matrices, copy=False)
""", """    if not sequential:
        Y = Y.ttm(factor_matrices, transpose=True)
    G = Y

    result = ttb.ttensor(G, factor_matrices, copy=False)
""")
    p.write_text(s)

def V8(t):  # cp_apr: kkt helper, dense log-likelihood with continue
    p = t / "pyttb/cp_apr.py"; s = p.read_text()
    s = sub1(s, """                    kkt_violation = np.max(np.abs(np.minimum(m_row, gradM)))
""", """                    kkt_violation = _row_kkt(m_row, gradM)
""")
    s = sub1(s, """                    kkt_violation = np.max(
                        np.abs(np.minimum(m_row, gradM.transpose()[0]))
                    )
""", """                    kkt_violation = _row_kkt(m_row, gradM.transpose()[0])
""")
    s = sub1(s, """            if dX[i, j] == 0:
                pass
            else:
                f += dX[i, j] * np.log(dM[i, j])
""", """            count = dX[i, j]
            if count == 0:
                continue
            f += count * np.log(dM[i, j])
""")
    s = sub1(s, "\n# PDNR helper functions\n", '''
def _row_kkt(row, gradient):
    """Infinity norm of the KKT residual of a row subproblem."""
    return np.max(np.abs(np.minimum(row, gradient)))


# PDNR helper functions
''')
    p.write_text(s)


def V9(t):  # hosvd: conditional expression for the rank; cp_als: `!=` test with swapped branches
    p = t / "pyttb/hosvd.py"; s = p.read_text()
    s = sub1(s, """        if ranks[k] == 0:
            eigsum = np.cumsum(eigvec[::-1])
            eigsum = eigsum[::-1]
            ranks[k] = np.where(eigsum > eigsumthresh)[0][-1] + 1

            if verbosity > 5:""", """        eigsum = np.cumsum(eigvec[::-1])[::-1]
        chosen = ranks[k] == 0
        ranks[k] = (np.where(eigsum > eigsumthresh)[0][-1] + 1) if ranks[k] == 0 else ranks[k]
        if chosen:
            if verbosity > 5:""")
    p.write_text(s)
    p = t / "pyttb/cp_als.py"; s = p.read_text()
    s = sub1(s, """        if normX == 0:
            normresidual = M.norm() ** 2 - 2 * iprod
            fit = normresidual
        else:
            # the following input to np.sqrt can be negative due to rounding and
            # truncation errors, so np.abs is used
            normresidual = np.sqrt(np.abs(normX**2 + M.norm() ** 2 - 2 * iprod))
            fit = 1 - (normresidual / normX)  # fraction explained by model
""", """        if normX != 0:
            # the following input to np.sqrt can be negative due to rounding and
            # truncation errors, so np.abs is used
            normresidual = np.sqrt(np.abs(normX**2 + M.norm() ** 2 - 2 * iprod))
            fit = 1 - (normresidual / normX)  # fraction explained by model
        else:
            normresidual = M.norm() ** 2 - 2 * iprod
            fit = normresidual
""")
    p.write_text(s)


VARIANTS = [("V1-renamed", V1), ("V2-ifexp", V2), ("V3-tk-helper", V3), ("V4-hosvd-tmp", V4), ("V5-apr-tmp", V5),
            ("V6-als-helpers", V6), ("V7-hosvd-named", V7), ("V8-apr-helper", V8), ("V9-swapped", V9)]

RUNNER = r"""
import json, sys
out = {}
for name in %r:
    mod = __import__("harness.translate." + name, fromlist=["build"])
    try:
        text, lost, _ = mod.build()
    except Exception as e:
        text, lost = None, [name + ": translator failed: " + type(e).__name__ + ": " + str(e)]
    out[name] = {"text": text, "lost": list(lost)}
json.dump(out, sys.stdout)
""" % (list(MODS),)


def strip_comments(block: str) -> str:
    block = re.sub(r"/-.*?-/", "", block, flags=re.S)
    block = "\n".join(ln.split("--")[0] for ln in block.split("\n"))
    return " ".join(block.split())


def defs_of(text: str) -> dict:
    from harness.translate import _split
    return {k: strip_comments(b) for k, b in _split(text) if k}


def run_translators(tree: Path) -> dict:
    env = dict(os.environ, PYTTB_REPO=str(tree), PYTHONPATH=f"{tree}:{ROOT}", PYTHONDONTWRITEBYTECODE="1")
    r = subprocess.run([PY, "-c", RUNNER], cwd=ROOT, env=env, capture_output=True, text=True, timeout=300)
    if r.returncode != 0:
        raise RuntimeError(r.stderr[-2000:])
    return json.loads(r.stdout)


def classify(result: dict, pinned: dict) -> tuple[dict, list]:
    """-> ({(module, def): '.', 'D', 'L', '+'}, lost messages)"""
    table, msgs = {}, []
    for mod in MODS:
        got = defs_of(result[mod]["text"] or "")
        for name, body in pinned[mod].items():
            if name not in got:
                table[(mod, name)] = "L"
            elif got[name] == body:
                table[(mod, name)] = "."
            else:
                table[(mod, name)] = "D"
        for name in got:
            if name not in pinned[mod]:
                table[(mod, name)] = "+"
        msgs += [f"{mod}: {m}" if not m.startswith(mod) else m for m in dict.fromkeys(result[mod]["lost"])]
    return table, msgs


def touched_files(patch: Path) -> list:
    return [ln[6:].strip() for ln in patch.read_text().split("\n") if ln.startswith("+++ b/")]


def main(argv):
    verbose = "-v" in argv
    argv = [a for a in argv if a != "-v"]
    props = ["C09", "C10", "C11", "C18"]
    if "--props" in argv:
        i = argv.index("--props")
        props = argv[i + 1].split(",")
        del argv[i:i + 2]
    only = set(argv)
    patches = []
    for p in props:
        d = ROOT / "harmless" / f"{p}h"
        if (d / "patch.diff").exists():
            patches.append((f"{p}h", "harmless", d / "patch.diff"))
    for p in props:
        for d in sorted((ROOT / "seeded").glob(f"{p}?")):
            if (d / "patch.diff").exists():
                patches.append((d.name, "harmful", d / "patch.diff"))
    if only:
        patches = [x for x in patches if x[0] in only]

    pinned = {mod: defs_of((ROOT / "harness" / "translate" / "pinned" / f).read_text()) for mod, f in MODS.items()}
    scratch = Path(tempfile.mkdtemp(prefix="translator_selftest_"))
    wt = scratch / "wt"
    rc = 0
    rows = []
    probe_fail = {}
    try:
        subprocess.run(["git", "-C", str(REPO), "worktree", "add", "--detach", str(wt), "HEAD"], check=True,
                       capture_output=True)
        base_table, base_msgs = classify(run_translators(wt), pinned)
        rows.append(("(unchanged)", "-", base_table, base_msgs, []))
        if any(v != "." for v in base_table.values()) or base_msgs:
            rc = 1
        for pid, kind, patch in patches:
            subprocess.run(["git", "-C", str(wt), "checkout", "-q", "--", "."], check=True)
            subprocess.run(["git", "-C", str(wt), "clean", "-fdq"], check=True)
            ok = subprocess.run(["git", "-C", str(wt), "apply", str(patch)], capture_output=True).returncode == 0 or \
                subprocess.run(["git", "-C", str(wt), "apply", "--3way", str(patch)], capture_output=True).returncode == 0
            if not ok:
                rows.append((pid, kind, None, ["patch does not apply to HEAD of /repo"], touched_files(patch)))
                if kind == "harmless":
                    rc = 1
                continue
            table, msgs = classify(run_translators(wt), pinned)
            rows.append((pid, kind, table, msgs, touched_files(patch)))
            if kind == "harmless" and (any(v != "." for v in table.values()) or msgs):
                rc = 1
        for vid, fn in ([] if only else VARIANTS):
            subprocess.run(["git", "-C", str(wt), "checkout", "-q", "--", "."], check=True)
            subprocess.run(["git", "-C", str(wt), "clean", "-fdq"], check=True)
            try:
                fn(wt)
            except AssertionError as e:
                rows.append((vid, "variant", None, [f"variant text not found in the current source: {e}"], []))
                continue       # the source moved on; not a failure of the translators
            changed = subprocess.run(["git", "-C", str(wt), "diff", "--name-only"], capture_output=True, text=True).stdout.split()
            table, msgs = classify(run_translators(wt), pinned)
            rows.append((vid, "harmless", table, msgs, changed))
            if any(v != "." for v in table.values()) or msgs:
                rc = 1
        for pid, basep, fname, old, new, expect in ([] if only else PROBES):
            if basep[:3] not in props:
                continue
            subprocess.run(["git", "-C", str(wt), "checkout", "-q", "--", "."], check=True)
            subprocess.run(["git", "-C", str(wt), "clean", "-fdq"], check=True)
            subprocess.run(["git", "-C", str(wt), "apply", str(ROOT / "harmless" / basep / "patch.diff")], check=True)
            src = (wt / fname).read_text()
            if src.count(old) != 1:
                rows.append((pid, "probe", None, [f"probe text not found exactly once in {fname}"], [fname]))
                rc = 1
                continue
            (wt / fname).write_text(src.replace(old, new))
            table, msgs = classify(run_translators(wt), pinned)
            rows.append((pid, "probe", table, msgs, [fname]))
            missed = [e for e in expect if table.get(("gen_" + e.split(".")[0], e.split(".")[1])) == "."]
            if missed:
                probe_fail[pid] = missed
                rc = 1
    finally:
        subprocess.run(["git", "-C", str(REPO), "worktree", "remove", "--force", str(wt)], capture_output=True)
        subprocess.run(["git", "-C", str(REPO), "worktree", "prune"], capture_output=True)
        shutil.rmtree(scratch, ignore_errors=True)

    # ---- anchor-by-anchor table: one row per generated definition, one column per patch ----
    keys = [(mod, name) for mod in MODS for name in pinned[mod]]
    ids = [r[0] for r in rows]
    w = max(len(f"{m[4:]}.{n}") for m, n in keys) + 1
    print("anchor-by-anchor ('.' read as pinned, 'D' read as different, 'L' lost, '-' patch did not apply)\n")
    for line in range(max(len(i) for i in ids)):
        print(" " * w + " ".join((i[line] if line < len(i) else " ") for i in ids))
    for mod, name in keys:
        cells = [(r[2].get((mod, name), "?") if r[2] is not None else "-") for r in rows]
        print(f"{mod[4:]}.{name}".ljust(w) + " ".join(cells))
    print()
    # ---- per patch ----
    for pid, kind, table, msgs, files in rows:
        if table is None:
            print(f"{pid:12s} {kind:9s} {msgs[0]}")
            continue
        diff = [f"{m[4:]}.{n}" for (m, n), v in table.items() if v == "D"]
        lost = [f"{m[4:]}.{n}" for (m, n), v in table.items() if v == "L"]
        extra = [f"{m[4:]}.{n}" for (m, n), v in table.items() if v == "+"]
        verdict = "all read as pinned" if not (diff or lost or extra or msgs) else \
            "; ".join(x for x in (("different: " + ", ".join(diff)) if diff else "",
                                  ("lost: " + ", ".join(lost)) if lost else "",
                                  ("new: " + ", ".join(extra)) if extra else "",
                                  ("shape-only anchors lost" if msgs and not (diff or lost) else "")) if x)
        flag = ""
        if kind == "harmless" and verdict != "all read as pinned":
            flag = "   <-- FAIL (a harmless refactoring must be read as pinned)"
        if pid in probe_fail:
            flag = f"   <-- FAIL (harmful edit read as pinned: {', '.join(probe_fail[pid])})"
        print(f"{pid:12s} {kind:9s} {','.join(Path(f).name for f in files):28s} {verdict}{flag}")
        if msgs and (verbose or kind != "harmless" or flag):
            for m in msgs:
                print(f"{'':12s}   - {m[:230]}")
    print()
    print("self-test", "PASSED" if rc == 0 else "FAILED",
          "(unchanged tree and harmless patches: every anchor read as pinned; no probe read as pinned)" if rc == 0 else "")
    return rc


if __name__ == "__main__":
    sys.exit(main(sys.argv[1:]))
