#!/bin/sh
# validate MANIFEST.json and every evidence file against the schemas
python3-vt - <<'PY'
import json, glob, jsonschema
jsonschema.validate(json.load(open('/verif/MANIFEST.json')), json.load(open('/root/.vp/MANIFEST.schema.json')))
print("MANIFEST ok")
sch = json.load(open('/root/.vp/EVIDENCE.schema.json'))
for f in sorted(glob.glob('/verif/evidence/*.json')):
    try:
        jsonschema.validate(json.load(open(f)), sch); print("ok", f)
    except Exception as e:
        print("INVALID", f, str(e)[:200])
PY
